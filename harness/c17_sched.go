package absnfs

// C17 scenarios (sched flavour only): connection limit, accounting, idle
// reaping and shutdown of the real Server over a scheduler-visible listener.

import (
	"fmt"
	"io"
	"log"
	"net"
	"sort"
	"strings"
	"time"

	"github.com/absfs/absnfs/internal/verif/recfs"
	"github.com/absfs/absnfs/internal/verif/vsched"
	"github.com/absfs/absnfs/internal/verif/vstime"
	"github.com/absfs/absnfs/internal/verif/wire"
)

// zzNetListen replaces net.Listen in the instrumented sources (see rewrite.go).
var zzNetListen = net.Listen

type c17World struct {
	nfs       *AbsfsNFS
	srv       *Server
	l         *sListener
	fs        *recfs.FS
	max       int
	conns     []*sConn
	served    int
	maxServed int
	bad       []vScnBad
	notes     []string
}

func (w *c17World) fail(sig, f string, a ...any) {
	w.bad = append(w.bad, vScnBad{sig, fmt.Sprintf(f, a...)})
}

// inv checks the accounting invariant at a moment no thread is inside the server's
// connection bookkeeping (called from connection methods and by the harness).
func (w *c17World) inv(where string) {
	s := w.srv
	if s == nil {
		return
	}
	if s.connMutex.Held() {
		return // a thread is inside the critical section: the pair is being updated
	}
	if s.connCount != len(s.activeConns) {
		w.fail("connection-count-differs-from-tracked-set", "%s: connCount=%d but %d connections are tracked", where, s.connCount, len(s.activeConns))
	}
	if s.connCount < 0 {
		w.fail("connection-count-negative", "%s: connCount=%d", where, s.connCount)
	}
	if w.max > 0 && s.connCount > w.max {
		w.fail("more-connections-counted-than-MaxConnections", "%s: connCount=%d, MaxConnections=%d", where, s.connCount, w.max)
	}
}

func c17New(max int, idle time.Duration) *c17World { return c17NewAllowed(max, idle, nil) }

func c17NewAllowed(max int, idle time.Duration, allowed []string) *c17World {
	vsched.SetQuiet(true)
	defer vsched.SetQuiet(false)
	w := &c17World{max: max, fs: recfs.New(), l: newSListener()}
	w.fs.NoLog = true
	c16Plant(w.fs)
	w.fs.Mkdir("/d", 0755)
	nfs, err := New(w.fs, ExportOptions{AllowedIPs: allowed, MaxConnections: max, IdleTimeout: idle, MaxWorkers: 2, AttrCacheTimeout: time.Hour,
		EnableDirCache: true, DirCacheTimeout: time.Hour, Timeouts: vLongTimeouts()})
	vMust(err, "New")
	nfs.logger = log.New(io.Discard, "", 0)
	w.nfs = nfs
	zzNetListen = func(network, addr string) (net.Listener, error) { return w.l, nil }
	vMust(nfs.Export("/", 2049), "Export")
	w.srv = nfs.exportServer
	w.srv.logger = log.New(io.Discard, "", 0)
	return w
}

// dial opens a client connection: it is queued at the listener like a completed TCP handshake.
func (w *c17World) dial(ip string) *sConn {
	c := newSConn(ip, 700+len(w.conns))
	c.onRead = func() {
		if !c.serving {
			c.serving = true
			w.served++
			if w.served > w.maxServed {
				w.maxServed = w.served
			}
		}
		w.inv("read on " + ip)
	}
	c.onClose = func() {
		if c.serving {
			c.serving = false
			w.served--
		}
	}
	w.conns = append(w.conns, c)
	if !w.l.offer(c) {
		c.Close() // listener already closed: the kernel refuses the connection
	}
	return c
}

// rpc performs one call on the connection; ok=false when the server closed it instead.
func c17RPC(c *sConn, xid, prog, vers, proc uint32, args []byte) (*wire.Reply, bool) {
	c.feed(wire.Record(wire.Call(xid, prog, vers, proc, vCredSys(0, 0, nil), args)))
	rec, ok := c.reply()
	if !ok {
		return nil, false
	}
	rp, err := wire.ParseReply(rec)
	if err != nil || rp.Xid != xid {
		return nil, false
	}
	return rp, true
}

// c17EarlyTimer reports whether some timer was fired before quiescence (a deviation that
// models threads being slower than the timer).
func c17EarlyTimer(res *vsched.Result) bool {
	for _, p := range res.Points {
		if p.Early && p.Chosen == p.N-1 {
			return true
		}
	}
	return false
}

// leaked lists server-side threads that are blocked forever at the end.
func c17Leaked(res *vsched.Result) []string {
	var out []string
	for _, b := range res.Blocked {
		if strings.HasPrefix(b, "go#") && !strings.Contains(b, "WorkerPool") {
			out = append(out, b)
		}
	}
	sort.Strings(out)
	return out
}

// c17Scenario: `clients` clients connect concurrently (kinds: "call-close", "call-idle",
// "dial-close"); with stopEarly a stopper calls Stop concurrently, otherwise the main
// thread lets 21 s of virtual time pass (idle timeout 10 s), checks, and then stops.
func c17Scenario(name string, max int, kinds []string, stopEarly bool) vScn {
	return c17ScenarioGated(name, max, kinds, stopEarly, 0)
}

// c17ScenarioGated: as c17Scenario, but the stopper first waits until `gate` clients
// have received a reply, so that Stop meets connections that are being served.
func c17ScenarioGated(name string, max int, kinds []string, stopEarly bool, gate int) vScn {
	const idle = 10 * time.Second
	return vScn{name: name, horizon: 90 * time.Second, build: func() (func(), func(*vsched.Result) (string, []vScnBad)) {
		var w *c17World
		outcome := map[string]string{}
		var stopErr error
		var dropped []int // clients whose call the server consumed but never answered
		stopReturned, finished := false, false
		afterStop := func(who string) {
			stopReturned = true
			if stopErr != nil {
				w.notes = append(w.notes, "stop-error")
				return // Stop itself reported that shutdown did not complete in time
			}
			for i, c := range w.conns {
				if c.accepted && !c.closed {
					w.fail("connection-still-open-after-stop", "%s: Stop returned nil but connection %d (accepted) is still open", who, i)
				}
			}
			if !w.l.closed {
				w.fail("listener-open-after-stop", "%s: Stop returned but the listener is still open", who)
			}
			if w.served != 0 {
				w.fail("connection-served-after-stop", "%s: Stop returned nil and %d connections are still being served", who, w.served)
			}
			w.inv("after Stop")
			if w.srv.connCount != 0 {
				w.fail("connections-counted-after-stop", "%s: connCount=%d after Stop returned nil", who, w.srv.connCount)
			}
			for _, a := range vsched.AliveSites() {
				if strings.Contains(a, "@absnfs.(*Server)") && !strings.Contains(a, "Stop") {
					w.fail("server-goroutine-alive-after-stop", "%s: Stop returned nil but server goroutine %s has not finished", who, a)
				}
			}
		}
		root := func() {
			var allowed []string
			for _, k := range kinds {
				if k == "foreign-ip" {
					allowed = []string{"10.0.0.0/28"} // clients 10.0.0.1.. are listed, 10.0.9.x are not
				}
			}
			w = c17NewAllowed(max, idle, allowed)
			nForeign := 0
			for _, k := range kinds {
				if k == "foreign-ip" {
					nForeign++
				}
			}
			foreignGone := vsched.NewChan[struct{}](len(kinds))
			done := vsched.NewChan[struct{}](len(kinds))
			replied := vsched.NewChan[struct{}](len(kinds))
			for i, kind := range kinds {
				i, kind := i, kind
				vsched.GoNamed(fmt.Sprintf("client%d", i), func() {
					defer done.SendNoPoint(struct{}{})
					defer replied.SendNoPoint(struct{}{}) // whatever the outcome: the stopper's gate counts finished attempts
					if kind == "call-close-late" { // connects once every foreign client has been turned away
						for k := 0; k < nForeign; k++ {
							foreignGone.Recv()
						}
					}
					ip := fmt.Sprintf("10.0.0.%d", i+1)
					if kind == "foreign-ip" {
						ip = fmt.Sprintf("10.0.9.%d", i+1) // not in AllowedIPs: refused at accept time
					}
					c := w.dial(ip)
					if kind == "foreign-ip" {
						c.reply() // wait until the server has closed it
						outcome[fmt.Sprintf("c%d", i)] = "refused-by-ip-filter"
						foreignGone.SendNoPoint(struct{}{})
						return
					}
					if kind == "dial-close" {
						c.closeClient()
						outcome[fmt.Sprintf("c%d", i)] = "closed"
						return
					}
					rp, ok := c17RPC(c, uint32(10+i), wire.ProgNFS, 3, 0, nil)
					switch {
					case !ok:
						outcome[fmt.Sprintf("c%d", i)] = "refused"
						if kind == "call-close-late" && !c.dataRead {
							open := 0
							for _, o := range w.conns {
								if o != c && o.accepted && !o.closed {
									open++
								}
							}
							if open == 0 {
								w.fail("listed-client-refused-although-no-connection-is-open", "a client inside AllowedIPs was turned away while no other connection was open (connCount=%d, MaxConnections=%d): connections refused by the address filter are still counted", w.srv.connCount, max)
							}
						}
						if c.dataRead && !stopEarly {
							dropped = append(dropped, i)
						}
						return
					case rp.Denied || rp.AcceptStat != 0:
						outcome[fmt.Sprintf("c%d", i)] = "rpc-error"
					default:
						outcome[fmt.Sprintf("c%d", i)] = "served"
					}
					if kind == "call-close" || kind == "call-close-late" {
						c.closeClient()
					}
				})
			}
			if stopEarly {
				vsched.GoNamed("stopper", func() {
					for g := 0; g < gate; g++ {
						replied.Recv()
					}
					stopErr = w.srv.Stop()
					afterStop("stopper")
				})
			}
			vsched.GoNamed("main", func() {
				for range kinds {
					done.Recv()
				}
				if !stopEarly {
					vsched.SleepQuiescent(21 * time.Second)
					// IdleTimeout 10 s, checked every 5 s: at this quiescent moment no open connection
					// may have been idle for more than 15 s
					now := vstime.Now()
					for i, c := range w.conns {
						if !c.accepted || c.closed {
							continue
						}
						st := w.srv.activeConns[c]
						if st == nil {
							w.fail("open-connection-not-tracked", "connection %d is open but no longer tracked by the server", i)
						} else if idleFor := now.Sub(st.lastActivity); idleFor > 15*time.Second {
							w.fail("idle-connection-not-closed", "connection %d has been idle for %v (IdleTimeout 10 s, checked every 5 s) and is still open", i, idleFor)
						}
					}
					w.inv("after idle period")
					open := 0
					for _, c := range w.conns {
						if c.accepted && !c.closed {
							open++
						}
					}
					if w.srv.connCount != open {
						w.fail("closed-connections-still-counted", "connCount=%d but %d accepted connections are open at a quiescent moment", w.srv.connCount, open)
					}
					stopErr = w.srv.Stop()
					afterStop("main")
					// repeating Stop is harmless
					if err := w.srv.Stop(); err != nil {
						w.notes = append(w.notes, "second-stop-error")
					}
				}
				finished = true
			})
		}
		judge := func(res *vsched.Result) (string, []vScnBad) {
			if w == nil {
				return "setup-failed", []vScnBad{{"setup-failed", "scenario set-up did not complete"}}
			}
			var bad []vScnBad
			for _, b := range w.bad {
				// a read deadline or the idle reaper fired early (a deviation the explorer injects):
				// the server may then legitimately close a fresh connection before reading from it
				if b.sig == "listed-client-refused-although-no-connection-is-open" && c17EarlyTimer(res) {
					continue
				}
				bad = append(bad, b)
			}
			for _, p := range res.Panics {
				bad = append(bad, vScnBad{"panic", p})
			}
			if b := vNamedBlocked(res, "client", "main", "stopper"); len(b) > 0 || !finished {
				bad = append(bad, vScnBad{"harness-thread-blocked-forever", fmt.Sprintf("%v (%s)", b, res.Summary())})
			}
			if len(dropped) > 0 && !c17EarlyTimer(res) {
				// the server consumed a call and closed the connection without replying although no timer
				// fired early: not a clause of C17 (C15 owns it) - shown in the outcome, not judged here
				w.notes = append(w.notes, fmt.Sprintf("dropped-without-reply=%v", dropped))
			}
			if stopErr != nil && !c17EarlyTimer(res) {
				bad = append(bad, vScnBad{"stop-gives-up-although-no-thread-was-slow", fmt.Sprintf("Stop returned %v in an execution where no timer fired before quiescence: the goroutines it waits for were blocked, not slow", stopErr)})
			}
			if w.maxServed > max && max > 0 {
				bad = append(bad, vScnBad{"more-connections-served-than-MaxConnections", fmt.Sprintf("%d connections were being served at once, MaxConnections=%d", w.maxServed, max)})
			}
			if stopReturned {
				if l := c17Leaked(res); len(l) > 0 {
					bad = append(bad, vScnBad{"goroutine-left-after-stop", fmt.Sprintf("threads blocked forever after Stop: %v", l)})
				}
				if w.srv.connCount != 0 || len(w.srv.activeConns) != 0 {
					bad = append(bad, vScnBad{"connections-counted-at-the-end", fmt.Sprintf("connCount=%d tracked=%d after shutdown and quiescence", w.srv.connCount, len(w.srv.activeConns))})
				}
				for i, c := range w.conns {
					if !c.closed {
						bad = append(bad, vScnBad{"connection-open-at-the-end", fmt.Sprintf("connection %d never closed by the server although Stop was called", i)})
					}
				}
			}
			var parts []string
			for k, v := range outcome {
				parts = append(parts, k+"="+v)
			}
			sort.Strings(parts)
			out := strings.Join(parts, ",") + fmt.Sprintf(" max-served=%d", w.maxServed)
			if len(w.notes) > 0 {
				out += " " + strings.Join(w.notes, ",")
			}
			return out, bad
		}
		return root, judge
	}}
}

// c17CloseScenario: the Close / Unexport / Stop clause. After real activity over a
// connection (handles allocated, caches filled, one connection left open) every
// sequence of three calls from {Close, Unexport, Stop} is run; a request racing the
// first call is explored by the scheduler.
func c17CloseScenario(name string, seq []string, racing bool) vScn {
	return vScn{name: name, horizon: 90 * time.Second, build: func() (func(), func(*vsched.Result) (string, []vScnBad)) {
		var w *c17World
		finished, expired := false, false
		var log []string
		root := func() {
			w = c17New(4, 0)
			vsched.SetQuiet(true) // the traffic before the calls under test is set-up
			c := w.dial("10.0.0.1")
			var a wire.Enc
			a.Str("/")
			rp, ok := c17RPC(c, 1, wire.ProgMount, 3, 1, a.B)
			if !ok || rp.Denied || rp.AcceptStat != 0 {
				w.fail("setup-failed", "MNT over the connection failed")
				return
			}
			m, err := wire.DecodeMount(1, rp.Result)
			if err != nil || m.Status != 0 {
				w.fail("setup-failed", "MNT: %v", err)
				return
			}
			rootFH, _ := wire.FHVal(m.FH)
			lookup := func(xid uint32, name string) bool {
				var a wire.Enc
				a.FH(rootFH).Str(name)
				rp, ok := c17RPC(c, xid, wire.ProgNFS, 3, wire.LOOKUP, a.B)
				return ok && !rp.Denied
			}
			lookup(2, "f")
			lookup(3, "d")
			var rd wire.Enc
			rd.FH(rootFH).U64(0).Raw(make([]byte, 8)).U32(4096)
			c17RPC(c, 4, wire.ProgNFS, 3, wire.READDIR, rd.B)
			if w.nfs.fileMap.Count() == 0 || w.nfs.attrCache.Size() == 0 {
				w.fail("setup-failed", "activity left no handles / cache entries: the clause would be vacuous")
			}
			if racing {
				vsched.SetQuiet(false)
				c2 := w.dial("10.0.0.2")
				vsched.GoNamed("client-racing", func() {
					var a wire.Enc
					a.Str("/")
					if rp, ok := c17RPC(c2, 9, wire.ProgMount, 3, 1, a.B); ok && !rp.Denied && rp.AcceptStat == 0 {
						if m, err := wire.DecodeMount(1, rp.Result); err == nil && m.Status == 0 {
							fh, _ := wire.FHVal(m.FH)
							var b wire.Enc
							b.FH(fh).Str("f")
							c17RPC(c2, 10, wire.ProgNFS, 3, wire.LOOKUP, b.B)
						}
					}
				})
			}
			vsched.GoNamed("main", func() {
				for i, op := range seq {
					var err error
					t0 := vsched.Now()
					switch op {
					case "Close":
						err = w.nfs.Close()
					case "Unexport":
						err = w.nfs.Unexport()
					case "Stop":
						err = w.srv.Stop()
					}
					log = append(log, fmt.Sprintf("%s:%v", op, err))
					if err != nil && !strings.Contains(err.Error(), "timeout waiting") {
						w.fail("call-fails|op="+op, "%s (step %d of %v) returned %v", op, i+1, seq, err)
					}
					if err != nil {
						continue
					}
					if vsched.Now()-t0 >= 5*time.Second {
						// the server's own 5 s shutdown wait expired (Close and Unexport do not report it)
						log[len(log)-1] += "(shutdown-wait-expired)"
						expired = true
					}
					if expired {
						continue // connections are only required to be closed by the end of the execution
					}
					for j, cc := range w.conns {
						if cc.accepted && !cc.closed {
							w.fail("connection-open-after-"+op, "%s returned but connection %d is still open", op, j)
						}
					}
					if op != "Stop" {
						if n := w.nfs.fileMap.Count(); n != 0 {
							w.fail("handles-left-after-"+op, "%d file handles remain after %s (step %d of %v)", n, op, i+1, seq)
						}
						if n := w.nfs.attrCache.Size(); n != 0 {
							w.fail("attr-cache-not-empty-after-"+op, "%d attribute cache entries remain after %s", n, op)
						}
						if w.nfs.dirCache != nil && w.nfs.dirCache.Size() != 0 {
							w.fail("dir-cache-not-empty-after-"+op, "%d directory cache entries remain after %s", w.nfs.dirCache.Size(), op)
						}
					}
				}
				finished = true
			})
		}
		judge := func(res *vsched.Result) (string, []vScnBad) {
			if w == nil {
				return "setup-failed", []vScnBad{{"setup-failed", "scenario set-up did not complete"}}
			}
			bad := w.bad
			for _, p := range res.Panics {
				bad = append(bad, vScnBad{"panic", p})
			}
			if !finished {
				bad = append(bad, vScnBad{"close-sequence-never-returns", fmt.Sprintf("%v: %v (%s)", seq, vNamedBlocked(res, "main", "client"), res.Summary())})
				return "blocked", bad
			}
			if expired && !c17EarlyTimer(res) {
				bad = append(bad, vScnBad{"shutdown-wait-expires-although-no-thread-was-slow", fmt.Sprintf("%v: %v", seq, log)})
			}
			if l := c17Leaked(res); len(l) > 0 {
				bad = append(bad, vScnBad{"goroutine-left-after-shutdown", fmt.Sprintf("%v: threads blocked forever: %v", seq, l)})
			}
			for j, cc := range w.conns {
				if cc.accepted && !cc.closed {
					bad = append(bad, vScnBad{"connection-open-at-the-end", fmt.Sprintf("%v: connection %d was accepted and is still open after shutdown and quiescence", seq, j)})
				}
			}
			// at the very end (after any racing request finished) nothing may have crept back
			released := false
			for _, op := range seq {
				if op != "Stop" {
					released = true
				}
			}
			if !released {
				return strings.Join(log, ","), bad
			}
			if n := w.nfs.fileMap.Count(); n != 0 {
				bad = append(bad, vScnBad{"handles-reappear-after-shutdown", fmt.Sprintf("%v: %d file handles exist at the end (calls: %v; early timer: %v)", seq, n, log, c17EarlyTimer(res))})
			}
			if n := w.nfs.attrCache.Size(); n != 0 {
				bad = append(bad, vScnBad{"cache-entries-reappear-after-shutdown", fmt.Sprintf("%v: %d attribute cache entries exist at the end", seq, n)})
			}
			return strings.Join(log, ","), bad
		}
		return root, judge
	}}
}

func c17Scenarios(thorough bool) []vScn {
	s := []vScn{
		c17Scenario("max1-3clients-idle", 1, []string{"call-idle", "call-close", "call-idle"}, false),
		c17Scenario("max2-3clients-mixed", 2, []string{"call-close", "call-idle", "dial-close"}, false),
		c17Scenario("max1-2clients-stop", 1, []string{"call-idle", "call-close"}, true),
		c17Scenario("max2-2clients-stop", 2, []string{"call-idle", "call-idle"}, true),
		c17ScenarioGated("max2-2clients-stop-after-1-reply", 2, []string{"call-idle", "call-idle"}, true, 1),
		// clients outside AllowedIPs are turned away at accept time: they must not stay counted
		c17Scenario("max2-foreign-ips-then-listed-client", 2, []string{"foreign-ip", "foreign-ip", "call-close-late"}, false),
	}
	ops := []string{"Close", "Unexport", "Stop"}
	for _, a := range ops {
		for _, b := range ops {
			for _, c := range ops {
				s = append(s, c17CloseScenario("seq-"+a+"-"+b+"-"+c, []string{a, b, c}, false))
			}
		}
	}
	s = append(s, c17CloseScenario("race-Close", []string{"Close", "Close"}, true), c17CloseScenario("race-Unexport", []string{"Unexport", "Close"}, true))
	if thorough {
		s = append(s, c17Scenario("max2-4clients-idle", 2, []string{"call-idle", "call-close", "call-idle", "dial-close"}, false),
			c17Scenario("max2-3clients-stop", 2, []string{"call-idle", "call-close", "call-idle"}, true),
			c17ScenarioGated("max2-3clients-stop-after-2-replies", 2, []string{"call-idle", "call-close", "call-idle"}, true, 2),
			c17CloseScenario("race-Stop", []string{"Stop", "Close"}, true))
	}
	return s
}
