// vcheck: driver for the absnfs model-checking harness.
//
//	vcheck <ID> [--tier quick|thorough]   run one property check
//	vcheck replay <path>                  re-execute a recorded violation
//	vcheck warm                           build all worker flavours
//
// The driver never edits the repository: instrumentation is an overlay
// generated from the repository's *current* working tree (VERIF_REPO, default
// /repo). Workers are subprocesses; their JSON results are merged, violations
// are classified against known_findings.jsonl, confirmed by replay and the
// evidence file is rewritten.
package main

import (
	"context"
	"crypto/sha256"
	"encoding/hex"
	"encoding/json"
	"fmt"
	"go/build"
	"os"
	"os/exec"
	"path/filepath"
	"sort"
	"strconv"
	"strings"
	"sync"
	"time"
)

var (
	verifDir = "/verif"
	repoDir  = "/repo"
)

type Violation struct {
	Sig     string          `json:"sig"`
	Msg     string          `json:"msg"`
	Replay  json.RawMessage `json:"replay"`
	Worker  string          `json:"worker,omitempty"`  // part of the check that found it (empty: the main part)
	Flavour string          `json:"flavour,omitempty"` // build flavour of that part
}

type ShardResult struct {
	Property    string            `json:"property"`
	Level       string            `json:"level"`
	Flavour     string            `json:"flavour"`
	Rule        string            `json:"rule"`
	Assumptions []string          `json:"assumptions"`
	Evaluations int64             `json:"evaluations"`
	Distinct    int64             `json:"distinct"`
	States      int64             `json:"states"`
	Transitions int64             `json:"transitions"`
	Traces      int64             `json:"traces"`
	Samples     []json.RawMessage `json:"samples"`
	Violations  []Violation       `json:"violations"`
	Exhaustive  bool              `json:"exhaustive"`
	Notes       []string          `json:"notes"`
	Counters    map[string]int64  `json:"counters"`
	Outcomes    map[string]int64  `json:"outcomes"`
	Info        map[string]any    `json:"info"`
	Bounds      map[string]any    `json:"bounds"`
	Shards      int               `json:"-"`
}

type Finding struct {
	Property  string `json:"property"`
	Signature string `json:"signature"`
	What      string `json:"what"`
	Status    string `json:"status"`
	Commit    string `json:"commit,omitempty"`
}

func die(code int, f string, a ...any) {
	fmt.Fprintf(os.Stderr, "vcheck: "+f+"\n", a...)
	os.Exit(code)
}

func main() {
	if v := os.Getenv("VERIF_DIR"); v != "" {
		verifDir = v
	}
	if v := os.Getenv("VERIF_REPO"); v != "" {
		repoDir = v
	}
	if len(os.Args) < 2 {
		die(2, "usage: vcheck <ID>|replay|warm ...")
	}
	setGoEnv()
	switch os.Args[1] {
	case "warm":
		for _, fl := range warmFlavours {
			if _, err := buildWorker(fl, false); err != nil {
				die(2, "build %s: %v", fl, err)
			}
		}
		if _, err := buildWorker("plain", true); err != nil {
			die(2, "build plain -race: %v", err)
		}
		fmt.Println("warm: ok")
	case "replay":
		if len(os.Args) < 3 {
			die(2, "usage: vcheck replay <path>")
		}
		os.Exit(replay(os.Args[2]))
	case "overlay":
		fl := "vtime"
		if len(os.Args) > 2 {
			fl = os.Args[2]
		}
		p, err := genOverlay(fl)
		if err != nil {
			die(2, "%v", err)
		}
		fmt.Println(p)
	default:
		id := os.Args[1]
		tier := os.Getenv("VERIF_TIER")
		for i := 2; i < len(os.Args); i++ {
			if os.Args[i] == "--tier" && i+1 < len(os.Args) {
				tier = os.Args[i+1]
				i++
			} else if os.Args[i] == "quick" || os.Args[i] == "thorough" {
				tier = os.Args[i]
			}
		}
		if tier != "thorough" {
			tier = "quick"
		}
		rc := runCheck(id, tier)
		cleanupEphemeral()
		os.Exit(rc)
	}
}

func setGoEnv() {
	os.Setenv("GOFLAGS", "-mod=mod")
	os.Setenv("GOPROXY", "off")
	os.Setenv("GOSUMDB", "off")
	os.Setenv("GOTOOLCHAIN", "local")
}

// ---------------------------------------------------------------- overlay

func repoSources() ([]string, error) {
	ents, err := os.ReadDir(repoDir)
	if err != nil {
		return nil, err
	}
	var out []string
	for _, e := range ents {
		n := e.Name()
		if e.IsDir() || !strings.HasSuffix(n, ".go") || strings.HasSuffix(n, "_test.go") || strings.HasPrefix(n, "zz_verif_") {
			continue
		}
		if ok, err := build.Default.MatchFile(repoDir, n); err != nil || !ok {
			continue // excluded by build constraints
		}
		out = append(out, n)
	}
	sort.Strings(out)
	return out, nil
}

func listGo(dir string) []string {
	ents, _ := os.ReadDir(dir)
	var out []string
	for _, e := range ents {
		if !e.IsDir() && strings.HasSuffix(e.Name(), ".go") {
			out = append(out, e.Name())
		}
	}
	sort.Strings(out)
	return out
}

func writeIfChanged(path string, data []byte) error {
	old, err := os.ReadFile(path)
	if err == nil && string(old) == string(data) {
		return nil
	}
	tmp := fmt.Sprintf("%s.%d.tmp", path, os.Getpid())
	if err := os.WriteFile(tmp, data, 0o644); err != nil {
		return err
	}
	return os.Rename(tmp, path)
}

// genOverlay writes the overlay JSON for a flavour and returns its path.
func genOverlay(flavour string) (string, error) {
	tag := sha(repoDir)[:8]
	ovDir := filepath.Join(verifDir, "build", "ov-"+flavour+"-"+tag)
	if err := os.MkdirAll(ovDir, 0o755); err != nil {
		return "", err
	}
	repl := map[string]string{}
	srcs, err := repoSources()
	if err != nil {
		return "", err
	}
	switch flavour {
	case "plain":
	case "vtime":
		for _, n := range srcs {
			b, err := os.ReadFile(filepath.Join(repoDir, n))
			if err != nil {
				return "", err
			}
			nb, changed := rewriteImports(b, map[string]string{
				`"time"`: `time "github.com/absfs/absnfs/internal/verif/vtime"`,
			})
			if changed {
				p := filepath.Join(ovDir, n)
				if err := writeIfChanged(p, nb); err != nil {
					return "", err
				}
				repl[filepath.Join(repoDir, n)] = p
			}
		}
	case "sched":
		if err := genSched(ovDir, srcs, repl); err != nil {
			return "", err
		}
	default:
		return "", fmt.Errorf("unknown flavour %q", flavour)
	}
	// kit packages -> virtual packages inside the module
	kits, _ := os.ReadDir(filepath.Join(verifDir, "kit"))
	for _, k := range kits {
		if !k.IsDir() {
			continue
		}
		for _, f := range listGo(filepath.Join(verifDir, "kit", k.Name())) {
			repl[filepath.Join(repoDir, "internal", "verif", k.Name(), f)] = filepath.Join(verifDir, "kit", k.Name(), f)
		}
	}
	// harness files -> package absnfs
	for _, f := range listGo(filepath.Join(verifDir, "harness")) {
		// *_sched.go only exists in the sched flavour, *_nosched.go in the others
		if strings.HasSuffix(f, "_nosched.go") {
			if flavour == "sched" {
				continue
			}
		} else if strings.HasSuffix(f, "_sched.go") && flavour != "sched" {
			continue
		}
		repl[filepath.Join(repoDir, "zz_verif_"+f)] = filepath.Join(verifDir, "harness", f)
	}
	// flavour marker file
	marker := filepath.Join(ovDir, "zz_flavour.go")
	if err := writeIfChanged(marker, []byte(fmt.Sprintf("package absnfs\n\nconst verifFlavour = %q\n", flavour))); err != nil {
		return "", err
	}
	repl[filepath.Join(repoDir, "zz_verif_flavour.go")] = marker
	repl[filepath.Join(repoDir, "cmd", "zzverif", "main.go")] = filepath.Join(verifDir, "harness", "main", "main.go")
	js, _ := json.MarshalIndent(map[string]any{"Replace": repl}, "", " ")
	ovPath := filepath.Join(ovDir, "overlay.json")
	if err := writeIfChanged(ovPath, js); err != nil {
		return "", err
	}
	return ovPath, nil
}

// rewriteImports replaces import specs (exact quoted path on its own line
// inside an import block, or a single-line import) by the given replacement.
func rewriteImports(src []byte, m map[string]string) ([]byte, bool) {
	lines := strings.Split(string(src), "\n")
	changed := false
	inBlock := false
	for i, l := range lines {
		t := strings.TrimSpace(l)
		if strings.HasPrefix(t, "import (") {
			inBlock = true
			continue
		}
		if inBlock && t == ")" {
			inBlock = false
			continue
		}
		if inBlock {
			for from, to := range m {
				if t == from {
					lines[i] = "\t" + to
					changed = true
				}
			}
		} else if strings.HasPrefix(t, "import ") {
			for from, to := range m {
				if t == "import "+from {
					lines[i] = "import " + to
					changed = true
				}
			}
		}
		if strings.HasPrefix(t, "func ") || strings.HasPrefix(t, "type ") || strings.HasPrefix(t, "var ") || strings.HasPrefix(t, "const ") {
			break
		}
	}
	return []byte(strings.Join(lines, "\n")), changed
}

func sha(parts ...string) string {
	h := sha256.New()
	for _, p := range parts {
		h.Write([]byte(p))
		h.Write([]byte{0})
	}
	return hex.EncodeToString(h.Sum(nil))
}

func hashInputs(flavour string, race bool) string {
	h := sha256.New()
	add := func(p string) {
		b, err := os.ReadFile(p)
		if err == nil {
			h.Write([]byte(p))
			h.Write(b)
		}
	}
	srcs, _ := repoSources()
	for _, n := range srcs {
		add(filepath.Join(repoDir, n))
	}
	add(filepath.Join(repoDir, "go.mod"))
	filepath.Walk(filepath.Join(verifDir, "kit"), func(p string, info os.FileInfo, err error) error {
		if err == nil && !info.IsDir() {
			add(p)
		}
		return nil
	})
	filepath.Walk(filepath.Join(verifDir, "harness"), func(p string, info os.FileInfo, err error) error {
		if err == nil && !info.IsDir() {
			add(p)
		}
		return nil
	})
	filepath.Walk(filepath.Join(verifDir, "cmd"), func(p string, info os.FileInfo, err error) error {
		if err == nil && !info.IsDir() {
			add(p)
		}
		return nil
	})
	fmt.Fprintf(h, "%s %v %s", flavour, race, repoDir)
	return hex.EncodeToString(h.Sum(nil))[:16]
}

var buildMu sync.Mutex

// buildWorker builds (or reuses) the worker binary for a flavour.
func buildWorker(flavour string, race bool) (string, error) {
	buildMu.Lock()
	defer buildMu.Unlock()
	key := hashInputs(flavour, race)
	name := "worker-" + flavour
	if race {
		name += "-race"
	}
	out := filepath.Join(verifDir, "build", name+"-"+key)
	if st, err := os.Stat(out); err == nil && st.Size() > 0 {
		now := time.Now()
		os.Chtimes(out, now, now) // in use: keeps it out of other processes' pruning
		return out, nil
	}
	ov, err := genOverlay(flavour)
	if err != nil {
		return "", err
	}
	// remove stale binaries of this name; binaries touched in the last 3 hours may be in
	// use by a concurrent vcheck (another tree, another tier) and are left alone
	old, _ := filepath.Glob(filepath.Join(verifDir, "build", name+"-*"))
	for _, o := range old {
		if st, err := os.Stat(o); err != nil || time.Since(st.ModTime()) < 3*time.Hour {
			continue
		}
		if !strings.Contains(filepath.Base(o), "-race-") || race {
			if strings.HasPrefix(filepath.Base(o), name+"-") && (race || !strings.HasPrefix(filepath.Base(o), name+"-race")) {
				os.Remove(o)
			}
		}
	}
	tmp := fmt.Sprintf("%s.%d.tmp", out, os.Getpid())
	args := []string{"build", "-overlay", ov, "-o", tmp}
	if race {
		args = append(args, "-race")
	}
	args = append(args, "./cmd/zzverif")
	cmd := exec.Command("go", args...)
	cmd.Dir = repoDir
	b, err := cmd.CombinedOutput()
	if err != nil {
		os.Remove(tmp)
		return "", fmt.Errorf("go build failed:\n%s", b)
	}
	if err := os.Rename(tmp, out); err != nil {
		return "", err
	}
	builtHere = append(builtHere, out)
	return out, nil
}

// builtHere lists the worker binaries this process built; with VERIF_EPHEMERAL set (scratch
// trees of the self-test and of seeded changes) they are removed when the process ends.
var builtHere []string

func cleanupEphemeral() {
	if os.Getenv("VERIF_EPHEMERAL") == "" {
		return
	}
	for _, b := range builtHere {
		os.Remove(b)
	}
}

// ---------------------------------------------------------------- running

type checkMeta struct {
	Flavour string   `json:"flavour"`
	Race    bool     `json:"race"`
	Shards  int      `json:"shards"`
	Level   string   `json:"level"`
	Also    []string `json:"also"` // further parts of the same check, possibly in another build flavour
	RaceBuild bool   `json:"race_build"`
}

func workerMeta(bin, id, tier string) (checkMeta, error) {
	var m checkMeta
	out, err := exec.Command(bin, "-meta", "-prop", id, "-tier", tier).Output()
	if err != nil {
		return m, fmt.Errorf("meta: %v", err)
	}
	err = json.Unmarshal(out, &m)
	return m, err
}

func runShards(bin, id, tier string, n int, extra ...string) ([]ShardResult, error) {
	runDir := filepath.Join(verifDir, "build", fmt.Sprintf("run-%s-%d", id, os.Getpid()))
	os.MkdirAll(runDir, 0o755)
	defer os.RemoveAll(runDir)
	res := make([]ShardResult, n)
	errs := make([]error, n)
	crashed := make([]bool, n)
	var wg sync.WaitGroup
	for i := 0; i < n; i++ {
		wg.Add(1)
		go func(i int) {
			defer wg.Done()
			out := filepath.Join(runDir, fmt.Sprintf("shard-%d.json", i))
			args := []string{"-prop", id, "-tier", tier, "-shard", strconv.Itoa(i), "-nshards", strconv.Itoa(n), "-out", out}
			args = append(args, extra...)
			cmd := exec.Command(bin, args...)
			cmd.Dir = runDir
			cmd.Env = append(os.Environ(), "GOMAXPROCS="+os.Getenv("VERIF_WORKER_GOMAXPROCS"))
			if os.Getenv("VERIF_WORKER_GOMAXPROCS") == "" {
				cmd.Env = os.Environ()
			}
			errFile, _ := os.Create(filepath.Join(runDir, fmt.Sprintf("shard-%d.err", i)))
			cmd.Stderr = errFile
			cmd.Stdout = errFile
			raceLog := filepath.Join(runDir, fmt.Sprintf("race-%d", i))
			if strings.Contains(filepath.Base(bin), "-race") {
				if cmd.Env == nil {
					cmd.Env = os.Environ()
				}
				cmd.Env = append(cmd.Env, "GORACE=log_path="+raceLog+" halt_on_error=0 exitcode=0 history_size=3")
			}
			err := cmd.Run()
			errFile.Close()
			defer func() {
				// every report of the race detector is a violation (it has no false positives)
				logs, _ := filepath.Glob(raceLog + ".*")
				for _, lf := range logs {
					b, _ := os.ReadFile(lf)
					for _, v := range raceViolations(id, b) {
						res[i].Violations = append(res[i].Violations, v)
					}
				}
			}()
			b, rerr := os.ReadFile(out)
			if rerr != nil {
				tail, _ := os.ReadFile(filepath.Join(runDir, fmt.Sprintf("shard-%d.err", i)))
				if msg, frame, ok := crashInfo(tail); ok {
					// the code under test killed the process (a panic in a goroutine of the
					// server, or a fatal runtime error): re-run the shard in trace mode to
					// learn which case was running, and report it as a violation
					tr := filepath.Join(runDir, fmt.Sprintf("shard-%d.trace", i))
					targs := append(append([]string{}, args...), "-trace", tr)
					tc := exec.Command(bin, targs...)
					tc.Dir = runDir
					tc.Run()
					cs, _ := os.ReadFile(tr)
					if len(cs) == 0 {
						cs = []byte(`"unknown (trace run recorded no case)"`)
					}
					res[i] = ShardResult{Property: id, Exhaustive: false, Counters: map[string]int64{"worker_crashes": 1},
						Violations: []Violation{{Sig: id + "|process-crash|" + msg + "|in=" + frame,
							Msg:    "the server process died while running this case: " + msg + " (in " + frame + "); a panic outside HandleCall's caller cannot be recovered by the connection handler",
							Replay: json.RawMessage(cs)}}}
					crashed[i] = true
					return
				}
				if len(tail) > 4000 {
					tail = tail[len(tail)-4000:]
				}
				errs[i] = fmt.Errorf("shard %d produced no result (%v):\n%s", i, err, tail)
				return
			}
			if jerr := json.Unmarshal(b, &res[i]); jerr != nil {
				errs[i] = fmt.Errorf("shard %d: bad result: %v", i, jerr)
			}
		}(i)
	}
	wg.Wait()
	for _, e := range errs {
		if e != nil {
			return nil, e
		}
	}
	return res, nil
}

// raceViolations turns the race detector's reports into violations. The signature names the
// innermost repository function (not harness, not runtime) of each of the two accesses.
func raceViolations(id string, log []byte) []Violation {
	prop := id
	if i := strings.IndexByte(prop, '.'); i > 0 {
		prop = prop[:i]
	}
	var out []Violation
	seen := map[string]bool{}
	for _, blk := range strings.Split(string(log), "WARNING: DATA RACE")[1:] {
		if i := strings.Index(blk, "=================="); i >= 0 {
			blk = blk[:i]
		}
		var sides []string
		var cur string
		curSet := false
		flush := func() {
			if curSet {
				sides = append(sides, cur)
			}
			curSet = false
		}
		lines := strings.Split(blk, "\n")
		for li := 0; li < len(lines); li++ {
			l := strings.TrimSpace(lines[li])
			switch {
			case strings.HasPrefix(l, "Write at"), strings.HasPrefix(l, "Read at"), strings.HasPrefix(l, "Previous write at"), strings.HasPrefix(l, "Previous read at"),
				strings.HasPrefix(l, "Atomic write at"), strings.HasPrefix(l, "Previous atomic"):
				flush()
				kind := "read"
				if strings.Contains(strings.ToLower(l), "write") {
					kind = "write"
				}
				cur, curSet = kind+":?", true
			case strings.HasPrefix(l, "Goroutine "), strings.HasPrefix(l, "Mutex "):
				flush()
			case curSet && strings.HasSuffix(cur, ":?") && strings.HasPrefix(l, "github.com/absfs/absnfs."):
				// the next line holds the file
				file := ""
				if li+1 < len(lines) {
					file = strings.TrimSpace(lines[li+1])
				}
				if strings.Contains(file, "zz_verif_") || strings.Contains(file, "/internal/verif/") {
					continue
				}
				fn := strings.TrimPrefix(l, "github.com/absfs/absnfs.")
				if j := strings.Index(fn, "("); j >= 0 && strings.HasSuffix(fn, ")") && !strings.HasPrefix(fn, "(") {
					fn = fn[:strings.LastIndex(fn, "(")]
				} else if strings.HasSuffix(fn, "()") {
					fn = strings.TrimSuffix(fn, "()")
				}
				cur = strings.TrimSuffix(cur, "?") + fn
			}
		}
		flush()
		if len(sides) < 2 {
			continue
		}
		pair := []string{sides[0], sides[1]}
		sort.Strings(pair)
		if strings.HasSuffix(pair[0], ":?") && strings.HasSuffix(pair[1], ":?") {
			continue // both accesses are in the harness itself
		}
		sig := prop + "|data-race|" + pair[0] + "|" + pair[1]
		if seen[sig] {
			continue
		}
		seen[sig] = true
		if len(blk) > 3000 {
			blk = blk[:3000]
		}
		out = append(out, Violation{Sig: sig, Msg: "the race detector reports unsynchronised accesses:" + blk, Replay: json.RawMessage(`{"scenario":""}`)})
	}
	return out
}

func merge(rs []ShardResult) ShardResult {
	// put a shard that finished normally first so that its metadata is used
	for i := range rs {
		if rs[i].Level != "" {
			rs[0], rs[i] = rs[i], rs[0]
			break
		}
	}
	m := rs[0]
	m.Shards = len(rs)
	if m.Counters == nil {
		m.Counters = map[string]int64{}
	}
	if m.Outcomes == nil {
		m.Outcomes = map[string]int64{}
	}
	for _, r := range rs[1:] {
		m.Evaluations += r.Evaluations
		m.Distinct += r.Distinct
		m.States += r.States
		m.Transitions += r.Transitions
		m.Traces += r.Traces
		m.Samples = append(m.Samples, r.Samples...)
		m.Violations = append(m.Violations, r.Violations...)
		m.Exhaustive = m.Exhaustive && r.Exhaustive
		m.Notes = append(m.Notes, r.Notes...)
		for k, v := range r.Counters {
			m.Counters[k] += v
		}
		for k, v := range r.Outcomes {
			m.Outcomes[k] += v
		}
	}
	// dedupe notes
	seen := map[string]bool{}
	var notes []string
	for _, n := range m.Notes {
		if !seen[n] {
			seen[n] = true
			notes = append(notes, n)
		}
	}
	m.Notes = notes
	return m
}

// crashInfo extracts the panic / fatal error message and the innermost frame
// that belongs to the repository (not the harness) from a dead worker's stderr.
func crashInfo(stderr []byte) (msg, frame string, ok bool) {
	lines := strings.Split(string(stderr), "\n")
	start := -1
	for i, l := range lines {
		if strings.HasPrefix(l, "panic: ") || strings.HasPrefix(l, "fatal error: ") {
			msg = strings.TrimSpace(l)
			start = i
			break
		}
	}
	if start < 0 {
		return "", "", false
	}
	if i := strings.Index(msg, " [recovered]"); i > 0 {
		msg = msg[:i]
	}
	if len(msg) > 120 {
		msg = msg[:120]
	}
	frame = "unknown"
	for _, l := range lines[start:] {
		l = strings.TrimSpace(l)
		if strings.HasPrefix(l, "github.com/absfs/absnfs.") && !strings.Contains(l, "zz_verif") {
			f := strings.TrimPrefix(l, "github.com/absfs/absnfs.")
			if j := strings.Index(f, "("); j > 0 && !strings.HasPrefix(f, "(") {
				f = f[:j]
			} else if strings.HasPrefix(f, "(") {
				if j := strings.Index(f[1:], "("); j > 0 {
					f = f[:j+1]
				}
			}
			// skip frames of harness functions (prefixed v / cNN)
			if strings.HasPrefix(f, "v") && len(f) > 1 && f[1] >= 'A' && f[1] <= 'Z' {
				continue
			}
			if len(f) > 3 && f[0] == 'c' && f[1] >= '0' && f[1] <= '9' {
				continue
			}
			frame = f
			break
		}
	}
	return msg, frame, true
}

func loadFindings() []Finding {
	b, err := os.ReadFile(filepath.Join(verifDir, "known_findings.jsonl"))
	if err != nil {
		return nil
	}
	var out []Finding
	for _, l := range strings.Split(string(b), "\n") {
		l = strings.TrimSpace(l)
		if l == "" || strings.HasPrefix(l, "#") {
			continue
		}
		var f Finding
		if json.Unmarshal([]byte(l), &f) == nil {
			out = append(out, f)
		}
	}
	return out
}

func matchFinding(fs []Finding, id, sig string) *Finding {
	for i := range fs {
		f := &fs[i]
		if f.Property != id || f.Status != "open" {
			continue
		}
		if f.Signature == sig {
			return f
		}
	}
	return nil
}

func runCheck(id, tier string) int {
	start := time.Now()
	seed, _ := strconv.Atoi(os.Getenv("VERIF_SEED"))
	// which flavour? ask a vtime worker (all flavours carry the same registry)
	probe, err := buildWorker("vtime", false)
	if err != nil {
		fmt.Fprintf(os.Stderr, "vcheck: build error (infrastructure, not a verdict):\n%v\n", err)
		return 2
	}
	meta, err := workerMeta(probe, id, tier)
	if err != nil {
		fmt.Fprintf(os.Stderr, "vcheck: %v\n", err)
		return 2
	}
	bin := probe
	if meta.Flavour != "vtime" || meta.RaceBuild {
		bin, err = buildWorker(meta.Flavour, meta.RaceBuild)
		if err != nil {
			fmt.Fprintf(os.Stderr, "vcheck: build error (infrastructure, not a verdict):\n%v\n", err)
			return 2
		}
	}
	n := meta.Shards
	if n <= 0 {
		n = 1
	}
	rs, err := runShards(bin, id, tier, n)
	if err != nil {
		fmt.Fprintf(os.Stderr, "vcheck: %v\n", err)
		return 2
	}
	m := merge(rs)
	// further parts of the same check (other build flavours); their results are merged
	partBin := map[string]string{}
	for _, sub := range meta.Also {
		sm, err := workerMeta(probe, sub, tier)
		if err != nil {
			fmt.Fprintf(os.Stderr, "vcheck: %v\n", err)
			return 2
		}
		sbin, err := buildWorker(sm.Flavour, sm.RaceBuild)
		if err != nil {
			fmt.Fprintf(os.Stderr, "vcheck: build error (infrastructure, not a verdict):\n%v\n", err)
			return 2
		}
		partBin[sub] = sbin
		sn := sm.Shards
		if sn <= 0 {
			sn = 1
		}
		srs, err := runShards(sbin, sub, tier, sn)
		if err != nil {
			fmt.Fprintf(os.Stderr, "vcheck: %v\n", err)
			return 2
		}
		pm := merge(srs)
		for i := range pm.Violations {
			pm.Violations[i].Worker, pm.Violations[i].Flavour = sub, sm.Flavour
		}
		m.Evaluations += pm.Evaluations
		m.Distinct += pm.Distinct
		m.States += pm.States
		m.Transitions += pm.Transitions
		m.Traces += pm.Traces
		m.Samples = append(m.Samples, pm.Samples...)
		m.Violations = append(m.Violations, pm.Violations...)
		if !sm.RaceBuild { // a sampling adjunct does not change what the exhaustive parts covered
			m.Exhaustive = m.Exhaustive && pm.Exhaustive
		}
		m.Notes = append(m.Notes, pm.Notes...)
		for k, v := range pm.Counters {
			m.Counters[sub+":"+k] += v
		}
		for k, v := range pm.Outcomes {
			m.Outcomes[sub+": "+k] += v
		}
		if m.Bounds == nil {
			m.Bounds = map[string]any{}
		}
		for k, v := range pm.Bounds {
			m.Bounds[sub+":"+k] = v
		}
		m.Rule += " || PART " + sub + " (" + sm.Flavour + " flavour): " + pm.Rule
		m.Assumptions = append(m.Assumptions, pm.Assumptions...)
		m.Shards += pm.Shards
	}
	// optional free-running race companion
	if meta.Race {
		rbin, err := buildWorker("plain", true)
		if err != nil {
			fmt.Fprintf(os.Stderr, "vcheck: race build error:\n%v\n", err)
			return 2
		}
		rr, err := runShards(rbin, id, tier, 1, "-race-companion")
		if err != nil {
			fmt.Fprintf(os.Stderr, "vcheck: race companion: %v\n", err)
			return 2
		}
		m.Violations = append(m.Violations, rr[0].Violations...)
		for k, v := range rr[0].Counters {
			m.Counters["race_"+k] += v
		}
		m.Notes = append(m.Notes, rr[0].Notes...)
	}

	// classify
	findings := loadFindings()
	knownHits := map[string]int{}
	knownWhat := map[string]string{}
	type newV struct {
		v Violation
		n int
	}
	newBySig := map[string]*newV{}
	var newOrder []string
	for _, v := range m.Violations {
		if f := matchFinding(findings, id, v.Sig); f != nil {
			knownHits[f.Signature]++
			knownWhat[f.Signature] = f.What
			continue
		}
		if nv, ok := newBySig[v.Sig]; ok {
			nv.n++
			continue
		}
		newBySig[v.Sig] = &newV{v: v, n: 1}
		newOrder = append(newOrder, v.Sig)
	}
	var ksigs []string
	for s := range knownHits {
		ksigs = append(ksigs, s)
	}
	sort.Strings(ksigs)
	for _, s := range ksigs {
		fmt.Printf("KNOWN-FINDING: property=%s %s [sig=%s cases=%d]\n", id, knownWhat[s], s, knownHits[s])
	}
	exit := 0
	os.MkdirAll(filepath.Join(verifDir, "replays"), 0o755)
	var vioRecords []map[string]any
	for _, s := range newOrder {
		nv := newBySig[s]
		rp := map[string]any{"property": id, "tier": tier, "sig": nv.v.Sig, "msg": nv.v.Msg, "flavour": meta.Flavour, "case": nv.v.Replay, "cases_with_this_signature": nv.n}
		bin, id := bin, id // the part that found it re-runs it
		if nv.v.Worker != "" {
			rp["worker"], rp["flavour"] = nv.v.Worker, nv.v.Flavour
			bin, id = partBin[nv.v.Worker], nv.v.Worker
		}
		js, _ := json.MarshalIndent(rp, "", " ")
		path := filepath.Join(verifDir, "replays", fmt.Sprintf("%s-%s.json", rp["property"], sha(s)[:12]))
		os.WriteFile(path, js, 0o644)
		// confirm by replay (twice)
		ok1, sig1, ok2, sig2 := true, nv.v.Sig, true, nv.v.Sig
		if strings.Contains(nv.v.Sig, "|process-crash|") {
			ok1, sig1 = replayCrash(bin, id, path, nv.v.Sig)
			ok2, sig2 = replayCrash(bin, id, path, nv.v.Sig)
		} else if !strings.HasSuffix(nv.v.Sig, "|no-progress") && !strings.Contains(nv.v.Sig, "|data-race|") { // a hang is not re-run; a race is a sampled observation
			ok1, sig1 = replayOnce(bin, id, path)
			if strings.HasPrefix(sig1, "<replay did not finish") {
				ok2, sig2 = ok1, sig1 // the case hangs the server under test: once is enough
			} else {
				ok2, sig2 = replayOnce(bin, id, path)
			}
		}
		confirmed := ok1 && ok2 && sig1 == nv.v.Sig && sig2 == nv.v.Sig
		if !confirmed {
			fmt.Printf("NOTE property=%s signature %q did not reproduce identically on replay (got %q,%q)\n", rp["property"], nv.v.Sig, sig1, sig2)
			m.Notes = append(m.Notes, fmt.Sprintf("violation %q did not reproduce identically on replay (%q,%q)", nv.v.Sig, sig1, sig2))
		}
		fmt.Printf("VIOLATION property=%s replay=%s\n", rp["property"], path)
		fmt.Printf("  sig=%s cases=%d\n  %s\n", nv.v.Sig, nv.n, nv.v.Msg)
		vioRecords = append(vioRecords, map[string]any{"sig": nv.v.Sig, "msg": nv.v.Msg, "cases": nv.n, "replay": path, "reproduced": confirmed})
		exit = 1
	}
	if os.Getenv("VERIF_NOEVIDENCE") == "" {
		writeEvidence(id, tier, seed, &m, knownHits, vioRecords, time.Since(start).Seconds())
	}
	if os.Getenv("VERIF_SHOW_OUTCOMES") != "" { // debugging aid
		var ks []string
		for k := range m.Outcomes {
			ks = append(ks, k)
		}
		sort.Strings(ks)
		for _, k := range ks {
			fmt.Printf("  outcome %8d  %s\n", m.Outcomes[k], k)
		}
	}
	fmt.Printf("%s %s: evaluations=%d distinct=%d states=%d transitions=%d exhaustive=%v known=%d new=%d wall=%.1fs\n",
		id, tier, m.Evaluations, m.Distinct, m.States, m.Transitions, m.Exhaustive, len(knownHits), len(newOrder), time.Since(start).Seconds())
	return exit
}

// replayCrash re-runs a case that killed the process and checks it dies the same way.
func replayCrash(bin, id, path, wantSig string) (bool, string) {
	ctx, cancel := context.WithTimeout(context.Background(), 3*time.Minute)
	defer cancel()
	cmd := exec.CommandContext(ctx, bin, "-prop", id, "-replay", path, "-out", os.DevNull)
	out, _ := cmd.CombinedOutput()
	if msg, frame, ok := crashInfo(out); ok {
		return true, id + "|process-crash|" + msg + "|in=" + frame
	}
	return false, "<no crash>"
}

var lastReplayMsg string
var lastReplayNotes []string

func replayOnce(bin, id, path string) (bool, string) {
	out := path + fmt.Sprintf(".%d.out", os.Getpid())
	defer os.Remove(out)
	// a replayed case may hang the server under test (that is what some violations are):
	// never wait for it longer than ten minutes
	ctx, cancel := context.WithTimeout(context.Background(), 3*time.Minute)
	defer cancel()
	cmd := exec.CommandContext(ctx, bin, "-prop", id, "-replay", path, "-out", out)
	cmd.Run()
	if ctx.Err() != nil {
		return false, "<replay did not finish within 3 minutes>"
	}
	b, err := os.ReadFile(out)
	if err != nil {
		return false, "<no result>"
	}
	var r ShardResult
	if json.Unmarshal(b, &r) != nil {
		return false, "<bad result>"
	}
	var want struct {
		Sig string `json:"sig"`
	}
	rb, _ := os.ReadFile(path)
	json.Unmarshal(rb, &want)
	lastReplayNotes = r.Notes
	for _, v := range r.Violations {
		if v.Sig == want.Sig {
			lastReplayMsg = v.Msg
			return true, v.Sig
		}
	}
	if len(r.Violations) > 0 {
		lastReplayMsg = r.Violations[0].Msg
		return true, r.Violations[0].Sig
	}
	return false, "<none>"
}

func replay(path string) int {
	b, err := os.ReadFile(path)
	if err != nil {
		die(2, "%v", err)
	}
	var rp struct {
		Property string `json:"property"`
		Worker   string `json:"worker"`
		Flavour  string `json:"flavour"`
		Sig      string `json:"sig"`
	}
	if err := json.Unmarshal(b, &rp); err != nil {
		die(2, "%v", err)
	}
	if rp.Flavour == "" {
		rp.Flavour = "vtime"
	}
	bin, err := buildWorker(rp.Flavour, false)
	if err != nil {
		die(2, "build: %v", err)
	}
	wid := rp.Property
	if rp.Worker != "" {
		wid = rp.Worker
	}
	ok, sig := replayOnce(bin, wid, path)
	if ok {
		fmt.Printf("VIOLATION property=%s replay=%s\n  reproduced sig=%s\n  %s\n", rp.Property, path, sig, lastReplayMsg)
		return 1
	}
	fmt.Printf("replay of %s: no violation (recorded sig %s)\n", path, rp.Sig)
	for _, n := range lastReplayNotes {
		fmt.Println("  note:", n)
	}
	return 0
}

func writeEvidence(id, tier string, seed int, m *ShardResult, known map[string]int, vios []map[string]any, wall float64) {
	samples := m.Samples
	if len(samples) > 12 {
		// deterministic pick controlled by seed: rotate
		off := 0
		if seed > 0 {
			off = seed % len(samples)
		}
		var pick []json.RawMessage
		for i := 0; i < 12; i++ {
			pick = append(pick, samples[(off+i*len(samples)/12)%len(samples)])
		}
		samples = pick
	}
	if len(samples) == 0 {
		samples = []json.RawMessage{json.RawMessage(`"(no sample recorded)"`)}
	}
	cov := map[string]any{
		"evaluations":         m.Evaluations,
		"distinct_nontrivial": m.Distinct,
		"rule":                m.Rule,
		"samples":             samples,
		"exhaustive":          m.Exhaustive,
		"shards":              m.Shards,
		"flavour":             m.Flavour,
	}
	if m.States > 0 {
		cov["states"] = m.States
		cov["transitions"] = m.Transitions
		cov["traces_validated_against_impl"] = m.Traces
	}
	if len(m.Counters) > 0 {
		cov["counters"] = m.Counters
	}
	if len(m.Outcomes) > 0 {
		cov["distinct_outcomes"] = len(m.Outcomes)
		if len(m.Outcomes) <= 64 {
			cov["outcomes"] = m.Outcomes
		}
	}
	if len(m.Bounds) > 0 {
		cov["bounds"] = m.Bounds
	}
	if len(m.Info) > 0 {
		cov["info"] = m.Info
	}
	if len(m.Notes) > 0 {
		cov["notes"] = m.Notes
	}
	if len(known) > 0 {
		cov["known_findings_matched"] = known
	}
	if len(vios) > 0 {
		cov["new_violations"] = vios
	}
	ev := map[string]any{
		"property_id": id,
		"tier":        tier,
		"seed":        seed,
		"level":       m.Level,
		"coverage":    cov,
		"assumptions": m.Assumptions,
		"wall_s":      wall,
		"violations":  len(vios),
	}
	if m.Assumptions == nil {
		ev["assumptions"] = []string{}
	}
	js, _ := json.MarshalIndent(ev, "", " ")
	os.MkdirAll(filepath.Join(verifDir, "evidence"), 0o755)
	os.WriteFile(filepath.Join(verifDir, "evidence", id+".json"), js, 0o644)
}
