package absnfs

// Harness core: registry of checks, result accumulation, worker entry point.
// This file is compiled into package absnfs through a build overlay only.

import (
	"crypto/sha256"
	"encoding/hex"
	"encoding/json"
	"flag"
	"fmt"
	"io"
	"log"
	"os"
	"runtime/debug"
	"sort"
	"sync/atomic"
	"time"
)

type vViolation struct {
	Sig    string          `json:"sig"`
	Msg    string          `json:"msg"`
	Replay json.RawMessage `json:"replay"`
}

type vResult struct {
	Property    string            `json:"property"`
	Level       string            `json:"level"`
	Flavour     string            `json:"flavour"`
	Rule        string            `json:"rule"`
	Assumptions []string          `json:"assumptions"`
	Evaluations int64             `json:"evaluations"`
	Distinct    int64             `json:"distinct"`
	States      int64             `json:"states"`
	Transitions int64             `json:"transitions"`
	Traces      int64             `json:"traces"`
	Samples     []json.RawMessage `json:"samples"`
	Violations  []vViolation      `json:"violations"`
	Exhaustive  bool              `json:"exhaustive"`
	Notes       []string          `json:"notes"`
	Counters    map[string]int64  `json:"counters"`
	Outcomes    map[string]int64  `json:"outcomes"`
	Info        map[string]any    `json:"info"`
	Bounds      map[string]any    `json:"bounds"`
}

// vCheck describes one registered property check.
type vCheck struct {
	id          string
	level       string // schema category
	flavour     string // vtime | plain | sched
	race        bool   // also run the free-running -race companion
	shards      func(tier string) int
	rule        string
	assumptions []string
	run         func(c *vCtx)
	replay      func(c *vCtx, raw json.RawMessage)
	companion   func(c *vCtx) // body of the -race companion (plain flavour)
	raceBuild   bool          // this part is built with -race and its race reports are collected by the driver
	also        []string      // ids of further parts (registered as checks "<ID>.<part>") merged into this check by the driver
}

var vChecks = map[string]*vCheck{}

func vRegister(c *vCheck) { vChecks[c.id] = c }

// vCtx is handed to a running check.
type vCtx struct {
	tier     string
	shard    int
	nshards  int
	res      *vResult
	deadline time.Time
	sigSeen  map[string]int
	sampleN  int
	distinct map[[16]byte]struct{}
	traceFile string
	beatAt   atomic.Int64
	beatCase atomic.Value // func() any
}

// beat records that the check is about to run the case described by f. A
// watchdog turns "no beat for a long time" into a no-progress violation that
// names the case (the code under test does not terminate on it).
func (c *vCtx) beat(f func() any) {
	c.beatAt.Store(time.Now().UnixNano())
	if f != nil {
		c.beatCase.Store(f)
		if c.traceFile != "" {
			// trace mode (after a crash): persist the case before running it
			if b, err := json.Marshal(f()); err == nil {
				os.WriteFile(c.traceFile, b, 0o644)
			}
		}
	}
}

func (c *vCtx) thorough() bool { return c.tier == "thorough" }

// mine reports whether case index i belongs to this shard.
func (c *vCtx) mine(i int) bool { return c.nshards <= 1 || i%c.nshards == c.shard }

func (c *vCtx) count(name string, n int64) { c.res.Counters[name] += n }
func (c *vCtx) outcome(name string)        { c.res.Outcomes[name]++ }
func (c *vCtx) note(f string, a ...any) {
	s := fmt.Sprintf(f, a...)
	for _, n := range c.res.Notes {
		if n == s {
			return
		}
	}
	c.res.Notes = append(c.res.Notes, s)
}

// sample records up to a few written-out cases.
func (c *vCtx) sample(v any) {
	c.sampleN++
	if len(c.res.Samples) >= 6 {
		return
	}
	// keep the 1st, 10th, 100th ... so samples are spread out
	n := c.sampleN
	for n >= 10 && n%10 == 0 {
		n /= 10
	}
	if n != 1 {
		return
	}
	b, err := json.Marshal(v)
	if err == nil {
		c.res.Samples = append(c.res.Samples, b)
	}
}

// distinctKey counts a case as distinct non-trivial if its key was not seen.
func (c *vCtx) distinctKey(key string) bool {
	h := sha256.Sum256([]byte(key))
	var k [16]byte
	copy(k[:], h[:16])
	if _, ok := c.distinct[k]; ok {
		return false
	}
	c.distinct[k] = struct{}{}
	c.res.Distinct++
	return true
}

// violation records a violation; at most 3 replay cases are kept per signature.
func (c *vCtx) violation(sig, msg string, replay any) {
	c.sigSeen[sig]++
	if c.sigSeen[sig] > 3 {
		// keep counting through a counter so the driver can report totals
		c.res.Counters["violations_suppressed_same_sig"]++
		return
	}
	b, _ := json.Marshal(replay)
	c.res.Violations = append(c.res.Violations, vViolation{Sig: sig, Msg: msg, Replay: b})
}

func (c *vCtx) timeUp() bool {
	return !c.deadline.IsZero() && time.Now().After(c.deadline)
}

func vHash(s string) string {
	h := sha256.Sum256([]byte(s))
	return hex.EncodeToString(h[:8])
}

func vSortedKeys[V any](m map[string]V) []string {
	ks := make([]string, 0, len(m))
	for k := range m {
		ks = append(ks, k)
	}
	sort.Strings(ks)
	return ks
}

// VerifMain is the worker entry point.
func VerifMain() {
	var (
		prop    = flag.String("prop", "", "property id")
		tier    = flag.String("tier", "quick", "quick|thorough")
		shard   = flag.Int("shard", 0, "shard index")
		nshards = flag.Int("nshards", 1, "number of shards")
		out     = flag.String("out", "", "result file")
		meta    = flag.Bool("meta", false, "print check metadata")
		replay  = flag.String("replay", "", "replay file")
		comp    = flag.Bool("race-companion", false, "run the free-running companion body")
		budget  = flag.Duration("budget", 0, "internal time budget")
		trace   = flag.String("trace", "", "trace mode: persist each case to this file before running it")
	)
	flag.Parse()
	ck, ok := vChecks[*prop]
	if !ok {
		fmt.Fprintf(os.Stderr, "unknown property %q\n", *prop)
		os.Exit(2)
	}
	if *meta {
		n := 1
		if ck.shards != nil {
			n = ck.shards(*tier)
		}
		json.NewEncoder(os.Stdout).Encode(map[string]any{"flavour": ck.flavour, "race": ck.race, "shards": n, "level": ck.level, "also": ck.also, "race_build": ck.raceBuild})
		return
	}
	log.SetOutput(io.Discard)
	debug.SetGCPercent(200)
	res := &vResult{Property: ck.id, Level: ck.level, Flavour: verifFlavour, Rule: ck.rule, Assumptions: ck.assumptions,
		Exhaustive: true, Counters: map[string]int64{}, Outcomes: map[string]int64{}, Info: map[string]any{}, Bounds: map[string]any{}}
	c := &vCtx{tier: *tier, shard: *shard, nshards: *nshards, res: res, sigSeen: map[string]int{}, distinct: map[[16]byte]struct{}{}}
	if *budget > 0 {
		c.deadline = time.Now().Add(*budget)
	}
	c.traceFile = *trace
	write := func() {
		if *out == "" {
			json.NewEncoder(os.Stdout).Encode(res)
			return
		}
		b, _ := json.Marshal(res)
		os.WriteFile(*out, b, 0o644)
	}
	switch {
	case *replay != "":
		b, err := os.ReadFile(*replay)
		if err != nil {
			fmt.Fprintln(os.Stderr, err)
			os.Exit(2)
		}
		var rp struct {
			Case json.RawMessage `json:"case"`
			Tier string          `json:"tier"`
		}
		if err := json.Unmarshal(b, &rp); err != nil {
			fmt.Fprintln(os.Stderr, err)
			os.Exit(2)
		}
		if rp.Tier != "" {
			c.tier = rp.Tier
		}
		if ck.replay == nil {
			fmt.Fprintln(os.Stderr, "check has no replay function")
			os.Exit(2)
		}
		ck.replay(c, rp.Case)
	case *comp:
		if ck.companion != nil {
			ck.companion(c)
		}
	default:
		vWatch(c, ck, write, func() { ck.run(c) })
	}
	write()
}

// vWatch runs body under a no-progress watchdog.
func vWatch(c *vCtx, ck *vCheck, write func(), body func()) {
	limit := 240 * time.Second
	if v := os.Getenv("VERIF_STALL_S"); v != "" {
		if n, err := time.ParseDuration(v + "s"); err == nil {
			limit = n
		}
	}
	c.beat(nil)
	done := make(chan struct{})
	go func() {
		defer close(done)
		body()
	}()
	tk := time.NewTicker(2 * time.Second)
	defer tk.Stop()
	for {
		select {
		case <-done:
			return
		case <-tk.C:
			if time.Since(time.Unix(0, c.beatAt.Load())) > limit {
				var cs any = "unknown (no case recorded)"
				if f, ok := c.beatCase.Load().(func() any); ok && f != nil {
					cs = f()
				}
				b, _ := json.Marshal(cs)
				c.res.Exhaustive = false
				c.res.Violations = append(c.res.Violations, vViolation{Sig: ck.id + "|no-progress",
					Msg:    fmt.Sprintf("the code under test made no progress for %v while running this case (non-termination or deadlock)", limit),
					Replay: b})
				write()
				os.Exit(0)
			}
		}
	}
}
