package vsched

import "fmt"

// Chan is the scheduler-visible replacement of a Go channel. All operations
// are scheduling points; blocking is modelled through enabledness.
type Chan[T any] struct {
	buf    []T
	cap    int
	closed bool
	name   string
	// rendezvous for unbuffered channels: a sender parks its value here while a
	// receiver is ready to take it
	recvWaiting int // receivers pending on this channel (for unbuffered sends)
	handoff     []T // values handed to receivers by unbuffered sends
}

var chanSeq int

// NewChan is the rewritten form of make(chan T, n).
func NewChan[T any](n ...int) *Chan[T] {
	c := &Chan[T]{}
	if len(n) > 0 {
		c.cap = n[0]
	}
	chanSeq++
	c.name = fmt.Sprintf("chan%d", chanSeq)
	return c
}

func (c *Chan[T]) canSend() bool {
	if c == nil {
		return false // send on nil channel blocks forever
	}
	if c.closed {
		return true // will panic
	}
	if c.cap > 0 {
		return len(c.buf) < c.cap
	}
	return c.recvWaiting > len(c.handoff) // an unbuffered send needs a waiting receiver
}

func (c *Chan[T]) canRecv() bool {
	if c == nil {
		return false
	}
	return len(c.buf) > 0 || len(c.handoff) > 0 || c.closed
}

func (c *Chan[T]) doSend(v T) {
	if c.closed {
		panic("send on closed channel")
	}
	if c.cap > 0 {
		c.buf = append(c.buf, v)
		return
	}
	c.handoff = append(c.handoff, v)
}

func (c *Chan[T]) doRecv() (T, bool) {
	var zero T
	if len(c.handoff) > 0 {
		v := c.handoff[0]
		c.handoff = c.handoff[1:]
		return v, true
	}
	if len(c.buf) > 0 {
		v := c.buf[0]
		c.buf = c.buf[1:]
		return v, true
	}
	return zero, false // closed and drained
}

// Send is ch <- v.
func (c *Chan[T]) Send(v T) {
	if s == nil || Dying() {
		if c != nil && !c.closed {
			c.buf = append(c.buf, v)
		}
		return
	}
	Point(&Op{Kind: "send", Obj: c.nameOf(), Enabled: c.canSend})
	if Dying() {
		return
	}
	c.doSend(v)
}

// SendOK is Send for harness objects: it reports false instead of panicking
// when the channel is (or becomes, while waiting) closed.
func (c *Chan[T]) SendOK(v T) bool {
	if s == nil || Dying() {
		if c != nil && !c.closed {
			c.buf = append(c.buf, v)
			return true
		}
		return false
	}
	Point(&Op{Kind: "send", Obj: c.nameOf(), Enabled: c.canSend})
	if Dying() || c.closed {
		return false
	}
	c.doSend(v)
	return true
}

func (c *Chan[T]) nameOf() string {
	if c == nil {
		return "nil-chan"
	}
	return c.name
}

// Recv is <-ch.
func (c *Chan[T]) Recv() T {
	v, _ := c.Recv2()
	return v
}

// Recv2 is v, ok := <-ch.
func (c *Chan[T]) Recv2() (T, bool) {
	var zero T
	if s == nil || Dying() {
		if c == nil {
			return zero, false
		}
		return c.doRecv()
	}
	if c != nil && c.cap == 0 {
		c.recvWaiting++
	}
	Point(&Op{Kind: "recv", Obj: c.nameOf(), Enabled: c.canRecv})
	if c != nil && c.cap == 0 {
		c.recvWaiting--
	}
	if Dying() {
		return zero, false
	}
	return c.doRecv()
}

// Close is close(ch).
func (c *Chan[T]) Close() {
	if s != nil && !Dying() {
		Point(&Op{Kind: "close", Obj: c.nameOf()})
		if Dying() {
			return
		}
	}
	if c == nil {
		panic("close of nil channel")
	}
	if c.closed {
		panic("close of closed channel")
	}
	c.closed = true
}

// Len is len(ch); Cap is cap(ch).
func (c *Chan[T]) Len() int {
	if c == nil {
		return 0
	}
	return len(c.buf)
}
func (c *Chan[T]) Cap() int {
	if c == nil {
		return 0
	}
	return c.cap
}

// Closed is for harness assertions.
func (c *Chan[T]) Closed() bool { return c != nil && c.closed }

// ---- select

// Case is one communication clause of a select statement.
type Case interface {
	ready() bool
	exec()
	enter()
	leave()
}

// RecvK is a receive clause; after Select chose it, Val and Ok hold the result.
type RecvK[T any] struct {
	c   *Chan[T]
	Val T
	Ok  bool
}

// SendK is a send clause.
type SendK[T any] struct {
	c *Chan[T]
	v T
}

func CaseRecv[T any](c *Chan[T]) *RecvK[T]      { return &RecvK[T]{c: c} }
func CaseSend[T any](c *Chan[T], v T) *SendK[T] { return &SendK[T]{c: c, v: v} }

func (k *RecvK[T]) ready() bool { return k.c.canRecv() }
func (k *RecvK[T]) exec()       { k.Val, k.Ok = k.c.doRecv() }
func (k *RecvK[T]) enter() {
	if k.c != nil && k.c.cap == 0 {
		k.c.recvWaiting++
	}
}
func (k *RecvK[T]) leave() {
	if k.c != nil && k.c.cap == 0 {
		k.c.recvWaiting--
	}
}
func (k *SendK[T]) ready() bool { return k.c.canSend() }
func (k *SendK[T]) exec()       { k.c.doSend(k.v) }
func (k *SendK[T]) enter()      {}
func (k *SendK[T]) leave()      {}

// Select is the rewritten select statement: it returns the index of the
// clause that was executed, or -1 for the default clause.
func Select(hasDefault bool, cases ...Case) int {
	if s == nil || Dying() {
		for i, k := range cases {
			if k.ready() {
				k.exec()
				return i
			}
		}
		return -1
	}
	anyReady := func() bool {
		for _, k := range cases {
			if k.ready() {
				return true
			}
		}
		return false
	}
	for _, k := range cases {
		k.enter()
	}
	op := &Op{Kind: "select", Obj: fmt.Sprintf("%d cases", len(cases))}
	if !hasDefault {
		op.Enabled = anyReady
	}
	Point(op)
	for _, k := range cases {
		k.leave()
	}
	if Dying() {
		return -1
	}
	var ready []int
	for i, k := range cases {
		if k.ready() {
			ready = append(ready, i)
		}
	}
	if len(ready) == 0 {
		return -1 // default clause
	}
	pick := ready[Choose(len(ready))]
	cases[pick].exec()
	return pick
}

// Block is select {}.
func Block() {
	Point(&Op{Kind: "block-forever", Enabled: func() bool { return false }})
}

// CloseNoPoint closes the channel without a scheduling point (used by the
// scheduler's own timer callbacks and by shims that have just passed a point).
func (c *Chan[T]) CloseNoPoint() {
	if c != nil {
		c.closed = true
	}
}

// RecvNoPoint takes a buffered value without a scheduling point.
func (c *Chan[T]) RecvNoPoint() (T, bool) {
	var zero T
	if c == nil || len(c.buf) == 0 {
		return zero, false
	}
	v := c.buf[0]
	c.buf = c.buf[1:]
	return v, true
}

// SendNoPoint appends to the buffer if there is room (timer/ticker delivery).
func (c *Chan[T]) SendNoPoint(v T) bool {
	if c == nil || c.closed || len(c.buf) >= c.cap {
		return false
	}
	c.buf = append(c.buf, v)
	return true
}
