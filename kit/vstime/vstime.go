// Package vstime is imported under the name time in the sched flavour: the
// clock, timers, tickers and Sleep belong to the scheduler's virtual time.
package vstime

import (
	"time"

	"github.com/absfs/absnfs/internal/verif/vsched"
)

type (
	Time     = time.Time
	Duration = time.Duration
	Month    = time.Month
	Weekday  = time.Weekday
	Location = time.Location
)

const (
	Nanosecond  = time.Nanosecond
	Microsecond = time.Microsecond
	Millisecond = time.Millisecond
	Second      = time.Second
	Minute      = time.Minute
	Hour        = time.Hour
	RFC3339     = time.RFC3339
	RFC3339Nano = time.RFC3339Nano
)

var (
	UTC   = time.UTC
	Local = time.Local
)

var base = time.Date(2030, 1, 1, 0, 0, 0, 0, time.UTC)

func Virtual() bool         { return true }
func Now() Time             { return base.Add(vsched.Now()) }
func Since(t Time) Duration { return Now().Sub(t) }
func Until(t Time) Duration { return t.Sub(Now()) }

func Unix(sec, nsec int64) Time                { return time.Unix(sec, nsec) }
func UnixMilli(ms int64) Time                  { return time.UnixMilli(ms) }
func ParseDuration(s string) (Duration, error) { return time.ParseDuration(s) }
func Date(year int, month Month, day, hour, min, sec, nsec int, loc *Location) Time {
	return time.Date(year, month, day, hour, min, sec, nsec, loc)
}

func Sleep(d Duration) {
	if !vsched.Active() {
		return
	}
	vsched.Sleep(d)
}

// Timer mirrors time.Timer with a scheduler-visible channel.
type Timer struct {
	C  *vsched.Chan[Time]
	tm *vsched.Timer
}

func NewTimer(d Duration) *Timer {
	t := &Timer{C: vsched.NewChan[Time](1)}
	t.tm = vsched.AddTimer(d, "timer", func() { t.C.SendNoPoint(Now()) })
	return t
}

func (t *Timer) Stop() bool { return t.tm.Stop() }
func (t *Timer) Reset(d Duration) bool {
	was := t.tm.Stop()
	t.tm.Reset(d)
	return was
}

func After(d Duration) *vsched.Chan[Time] { return NewTimer(d).C }

func AfterFunc(d Duration, f func()) *Timer {
	t := &Timer{}
	t.tm = vsched.AddTimer(d, "afterfunc", func() { vsched.GoNamed("afterfunc", f) })
	return t
}

// Ticker mirrors time.Ticker.
type Ticker struct {
	C      *vsched.Chan[Time]
	tm     *vsched.Timer
	period Duration
	stop   bool
}

func NewTicker(d Duration) *Ticker {
	if d <= 0 {
		panic("non-positive interval for NewTicker")
	}
	t := &Ticker{C: vsched.NewChan[Time](1), period: d}
	t.arm()
	return t
}

func (t *Ticker) arm() {
	t.tm = vsched.AddTimer(t.period, "ticker", func() {
		if t.stop {
			return
		}
		t.C.SendNoPoint(Now()) // dropped if the previous tick was not consumed
		t.arm()
	})
}

func (t *Ticker) Stop() {
	t.stop = true
	t.tm.Stop()
}

func (t *Ticker) Reset(d Duration) {
	t.tm.Stop()
	t.period = d
	t.stop = false
	t.arm()
}
