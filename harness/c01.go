package absnfs

// C01 — file data read back through the server equals the data written.
// Explicit-state search over WRITE / SETATTR(size) / CREATE histories on two
// files with small transfer sizes, against a byte-array model; every new
// state is observed with READs of every range and with the backend's bytes.

import (
	"bytes"
	"encoding/json"
	"fmt"
	"time"

	"github.com/absfs/absnfs/internal/verif/recfs"
	"github.com/absfs/absnfs/internal/verif/vtime"
	"github.com/absfs/absnfs/internal/verif/wire"
)

type c01Op struct {
	Kind   string `json:"kind"` // write setsize create
	File   string `json:"file"`
	Off    uint64 `json:"off,omitempty"`
	Len    int    `json:"len,omitempty"`
	Stable uint32 `json:"stable,omitempty"`
	Size   uint64 `json:"size,omitempty"`
	HasSz  bool   `json:"has_size,omitempty"`
	How    uint32 `json:"createmode,omitempty"` // CREATE: 0 UNCHECKED, 1 GUARDED, 2 EXCLUSIVE
}

type c01Cfg struct {
	T   int           `json:"transfer_size"`
	TTL time.Duration `json:"attr_ttl"`
}

type c01State struct {
	cfg   c01Cfg
	e     *vEnv
	root  uint64
	fh    map[string]uint64
	model map[string][]byte
	c     *vCtx
}

type c01Case struct {
	Cfg  c01Cfg  `json:"cfg"`
	Hist []c01Op `json:"hist"`
	Obs  string  `json:"observation,omitempty"`
}

func c01New(cfg c01Cfg, c *vCtx) *c01State {
	vtime.Set(0)
	e, err := vNewEnv(ExportOptions{TransferSize: cfg.T, AttrCacheTimeout: cfg.TTL, AttrCacheSize: 16}, func(fs *recfs.FS) {
		for _, n := range []string{"/f", "/g"} {
			f, _ := fs.Create(n)
			f.Write([]byte("ab"))
			f.Close()
		}
	})
	vMust(err, "env")
	s := &c01State{cfg: cfg, e: e, fh: map[string]uint64{}, model: map[string][]byte{"f": []byte("ab"), "g": []byte("ab")}, c: c}
	s.root, err = e.mnt("/")
	vMust(err, "mnt")
	for _, n := range []string{"f", "g"} {
		s.fh[n], err = e.lookupFH(s.root, n)
		vMust(err, "lookup")
	}
	return s
}

func (s *c01State) backend(n string) []byte {
	b, _ := s.e.fs.Inner().ReadFile("/" + n)
	return b
}

func c01Payload(off uint64, n int) []byte {
	b := make([]byte, n)
	for i := range b {
		b[i] = byte('A' + (int(off%7)*3+n*5+i)%26)
	}
	return b
}

func (s *c01State) key() string {
	nfs := s.e.nfs
	now := vtime.Now()
	k := fmt.Sprintf("%q|%q|", s.backend("f"), s.backend("g"))
	for _, p := range []string{"/f", "/g"} {
		if ce, ok := nfs.attrCache.cache[p]; ok {
			k += fmt.Sprintf("%s:%v:%d;", p, now.Before(ce.expireAt), ce.attrs.Size)
		}
	}
	for _, n := range []string{"f", "g"} {
		if nd, ok := s.e.h.lookupNode(s.fh[n]); ok && nd.attrs != nil {
			k += fmt.Sprintf("%s=%d;", n, nd.attrs.Size)
		}
	}
	return k
}

func (s *c01State) apply(op c01Op, check bool, hist []c01Op) {
	cs := func() c01Case { return c01Case{Cfg: s.cfg, Hist: append(append([]c01Op(nil), hist...), op)} }
	bad := func(sig, msg string) {
		if check {
			s.c.violation("C01|"+sig, msg, cs())
		}
	}
	const backendMax = 1 << 20
	m := s.model[op.File]
	other := "g"
	if op.File == "g" {
		other = "f"
	}
	otherBefore := append([]byte(nil), s.backend(other)...)
	var res *wire.NFSRes
	var err error
	want := append([]byte(nil), m...)
	mustFail, mayFail := false, false
	switch op.Kind {
	case "write":
		data := c01Payload(op.Off, op.Len)
		var a wire.Enc
		a.FH(s.fh[op.File]).U64(op.Off).U32(uint32(op.Len)).U32(op.Stable).Opaque(data)
		res, _, err = s.e.nfsCall(wire.WRITE, a.B)
		switch {
		case op.Off >= 1<<63 || op.Off+uint64(op.Len) > 1<<63-1:
			mustFail = true // not representable as a file offset
		case op.Len > s.cfg.T:
			mayFail = true // above the transfer size: refusing is C23's business; a short write is fine too
		case op.Off+uint64(op.Len) > backendMax:
			mustFail = true // the recording backend refuses (its size guard)
		}
	case "setsize":
		var a wire.Enc
		a.FH(s.fh[op.File]).Sattr(wire.Sattr{Size: wire.U64p(op.Size)}).U32(0)
		res, _, err = s.e.nfsCall(wire.SETATTR, a.B)
		if op.Size > backendMax {
			mustFail = true
		} else {
			for uint64(len(want)) < op.Size {
				want = append(want, 0)
			}
			want = want[:op.Size]
		}
	case "create":
		var a wire.Enc
		sat := wire.Sattr{}
		if op.HasSz {
			sat.Size = wire.U64p(op.Size)
		}
		if op.How == 2 {
			a.FH(s.root).Str(op.File).U32(2).Raw([]byte("verifier"))
		} else {
			a.FH(s.root).Str(op.File).U32(op.How).Sattr(sat)
		}
		res, _, err = s.e.nfsCall(wire.CREATE, a.B)
	}
	if err != nil || res == nil {
		bad("call-failed|op="+op.Kind, fmt.Sprintf("%v", err))
		return
	}
	got := s.backend(op.File)
	if check {
		s.c.res.Evaluations++
		s.c.outcome(op.Kind + ":" + wire.StatName(res.Status))
	}
	switch op.Kind {
	case "write":
		if res.Status == 0 {
			n := int(res.Count)
			if mustFail {
				bad("write-at-unrepresentable-offset-succeeds", fmt.Sprintf("WRITE off=%d len=%d replied NFS3_OK count=%d", op.Off, op.Len, n))
			}
			if n > op.Len {
				bad("write-count-exceeds-request", fmt.Sprintf("WRITE len=%d replied count=%d", op.Len, n))
				n = op.Len
			}
			if !mustFail {
				end := int(op.Off) + n
				if n > 0 {
					for len(want) < end {
						want = append(want, 0)
					}
					copy(want[op.Off:], c01Payload(op.Off, op.Len)[:n])
				}
				if op.Len > 0 && n == 0 {
					bad("write-stores-nothing", fmt.Sprintf("WRITE off=%d len=%d replied NFS3_OK with count 0", op.Off, op.Len))
				}
			}
		} else if !mustFail && !mayFail {
			bad(fmt.Sprintf("write-within-limits-fails|status=%s", wire.StatName(res.Status)), fmt.Sprintf("WRITE off=%d len=%d (T=%d) replied %s", op.Off, op.Len, s.cfg.T, wire.StatName(res.Status)))
		}
	case "setsize":
		if res.Status != 0 {
			want = append([]byte(nil), m...)
			if !mustFail {
				bad(fmt.Sprintf("setattr-size-fails|status=%s", wire.StatName(res.Status)), fmt.Sprintf("SETATTR size=%d replied %s", op.Size, wire.StatName(res.Status)))
			}
		} else if mustFail {
			bad("setattr-size-beyond-backend-succeeds", fmt.Sprintf("SETATTR size=%d replied NFS3_OK", op.Size))
		}
	case "create":
		// UNCHECKED create of an existing file: unchanged, or resized to exactly the explicit size
		// (GUARDED and EXCLUSIVE creates of an existing file never change it, whatever they reply)
		if op.How == 0 && op.HasSz && res.Status == 0 && uint64(len(got)) == op.Size && !bytes.Equal(got, m) {
			for uint64(len(want)) < op.Size {
				want = append(want, 0)
			}
			want = want[:op.Size]
		}
	}
	if !bytes.Equal(got, want) {
		bad(fmt.Sprintf("backend-bytes-differ-from-model|op=%s|replied=%s", op.Kind, wire.StatName(res.Status)),
			fmt.Sprintf("after %+v (%s) the backend file holds %q, the byte-array model %q", op, wire.StatName(res.Status), got, want))
	}
	if ob := s.backend(other); !bytes.Equal(ob, otherBefore) {
		bad("other-file-modified|op="+op.Kind, fmt.Sprintf("%+v changed the other file from %q to %q", op, otherBefore, ob))
	}
	s.model[op.File] = append([]byte(nil), got...) // continue from the observed bytes
}

// observe reads every range of both files and compares with the backend bytes.
func (s *c01State) observe(hist []c01Op) {
	T := s.cfg.T
	for _, n := range []string{"f", "g"} {
		file := s.backend(n)
		size := uint64(len(file))
		var offs []uint64
		for o := uint64(0); o <= size+2; o++ {
			offs = append(offs, o)
		}
		offs = append(offs, 1<<63-1, 1<<63, 1<<64-1)
		for _, off := range offs {
			for _, cnt := range []uint32{0, 1, 2, uint32(T - 1), uint32(T), uint32(T + 1), 1<<32 - 1} {
				obs := fmt.Sprintf("READ %s off=%d count=%d", n, off, cnt)
				bad := func(sig, msg string) {
					s.c.violation("C01|"+sig, obs+": "+msg, c01Case{Cfg: s.cfg, Hist: hist, Obs: obs})
				}
				var a wire.Enc
				a.FH(s.fh[n]).U64(off).U32(cnt)
				res, _, err := s.e.nfsCall(wire.READ, a.B)
				s.c.res.Evaluations++
				if err != nil || res == nil {
					bad("call-failed|op=read", fmt.Sprintf("%v", err))
					continue
				}
				if off >= 1<<63 {
					if res.Status == 0 && (len(res.Data) > 0 || !res.EOF) {
						bad("read-at-unrepresentable-offset-returns-data", fmt.Sprintf("status OK, %d bytes, eof=%v", len(res.Data), res.EOF))
					}
					continue
				}
				if res.Status != 0 {
					bad(fmt.Sprintf("read-fails|status=%s", wire.StatName(res.Status)), "size "+fmt.Sprint(size))
					continue
				}
				wantN := uint64(cnt)
				if wantN > uint64(T) {
					wantN = uint64(T)
				}
				rem := uint64(0)
				if off < size {
					rem = size - off
				}
				if wantN > rem {
					wantN = rem
				}
				if uint64(res.Count) != wantN || uint64(len(res.Data)) != wantN {
					rel := "short"
					if uint64(res.Count) > wantN {
						rel = "long"
					}
					bad("read-count-wrong|"+rel, fmt.Sprintf("returned count=%d (%d data bytes), expected min(requested,T=%d,size-off)=%d (size %d)", res.Count, len(res.Data), T, wantN, size))
					continue
				}
				if wantN > 0 && !bytes.Equal(res.Data, file[off:off+wantN]) {
					bad("read-data-differs-from-file", fmt.Sprintf("returned %q, the file holds %q there", res.Data, file[off:off+wantN]))
				}
				if wantEOF := off+wantN >= size; res.EOF != wantEOF {
					bad(fmt.Sprintf("read-eof-wrong|eof=%v", res.EOF), fmt.Sprintf("eof=%v but offset+count=%d and size=%d", res.EOF, off+wantN, size))
				}
				if res.Attr != nil && res.Attr.Size != size {
					bad("read-post-op-size-stale", fmt.Sprintf("post-op attributes say size %d, the file has %d", res.Attr.Size, size))
				}
			}
		}
	}
}

func c01Ops(T int) []c01Op {
	var ops []c01Op
	offs := []uint64{0, 1, 3, uint64(T - 1), uint64(T), uint64(T + 1), 1<<63 - 2, 1 << 63, 1<<64 - 1}
	lens := []int{0, 1, 3, T - 1, T, T + 1}
	seen := map[string]bool{}
	for _, o := range offs {
		for _, l := range lens {
			k := fmt.Sprint(o, l)
			if seen[k] {
				continue
			}
			seen[k] = true
			ops = append(ops, c01Op{Kind: "write", File: "f", Off: o, Len: l, Stable: 2})
		}
	}
	ops = append(ops, c01Op{Kind: "write", File: "f", Off: 1, Len: 2, Stable: 0}, c01Op{Kind: "write", File: "g", Off: 0, Len: 3, Stable: 2}, c01Op{Kind: "write", File: "g", Off: 2, Len: 1, Stable: 1})
	for _, sz := range []uint64{0, 1, 5, uint64(T + 2), 1 << 63} {
		ops = append(ops, c01Op{Kind: "setsize", File: "f", Size: sz})
	}
	ops = append(ops, c01Op{Kind: "setsize", File: "g", Size: 1})
	ops = append(ops, c01Op{Kind: "create", File: "f"}, c01Op{Kind: "create", File: "f", HasSz: true, Size: 0}, c01Op{Kind: "create", File: "f", HasSz: true, Size: 3},
		c01Op{Kind: "create", File: "f", How: 1}, c01Op{Kind: "create", File: "f", How: 1, HasSz: true, Size: 0}, c01Op{Kind: "create", File: "f", How: 2})
	return ops
}

func init() {
	vRegister(&vCheck{
		id: "C01", level: "model_checking", flavour: "vtime",
		shards: func(string) int { return 16 },
		rule: "breadth-first search over histories of WRITE(off in {0,1,3,T-1,T,T+1,2^63-2,2^63,2^64-1} x len in {0,1,3,T-1,T,T+1}, stable_how), SETATTR(size in {0,1,5,T+2,2^63}) and CREATE of the existing name (UNCHECKED without size / size 0 / size 3, GUARDED without size / size 0, EXCLUSIVE) on two files, for TransferSize T in {4,8} and attribute-cache TTL in {1ns,5s,1h} (virtual clock, +1s per request); depth 3 (thorough 4), states deduplicated on (bytes of both files, attribute-cache and handle-node sizes). After every transition the backend bytes are compared with a byte-array model; every new state is observed with READ(off,count) for every off in [0,size+2] and {2^63-1,2^63,2^64-1} x count in {0,1,2,T-1,T,T+1,2^32-1} on both files: data, count = min(requested,T,size-off), eof and post-op size.",
		assumptions: []string{"a WRITE longer than the transfer size may be refused or stored partially (judged by C23)", "offsets that are not representable as int64 file offsets must fail and leave the file unchanged", "the recording backend refuses sizes above 1 MiB"},
		run: func(c *vCtx) {
			depth := 3
			if c.thorough() {
				depth = 4
			}
			for _, T := range []int{4, 8} {
				for _, ttl := range []time.Duration{1, 5 * time.Second, time.Hour} {
					if !c.thorough() && ((T == 4 && ttl == 5*time.Second) || (T == 8 && ttl != 5*time.Second)) {
						continue // quick: (4,1ns) (4,1h) (8,5s)
					}
					cfg := c01Cfg{T: T, TTL: ttl}
					ops := c01Ops(T)
					eng := &vHist[*c01State, c01Op]{
						New:     func() *c01State { return c01New(cfg, c) },
						Apply:   func(s *c01State, op c01Op, check bool, hist []c01Op) { s.apply(op, check, hist) },
						Enabled: func(s *c01State) []c01Op { return ops },
						Key:     func(s *c01State) string { return s.key() },
						Close:   func(s *c01State) { s.e.close() },
						OnNew:   func(s *c01State, hist []c01Op) { s.observe(hist) },
					}
					st, tr, _ := eng.run(c, depth)
					c.res.States += st
					c.res.Transitions += tr
					c.res.Traces += tr
					c.sample(map[string]any{"cfg": cfg, "alphabet": len(ops), "depth": depth, "states": st, "transitions": tr})
				}
			}
		},
		replay: func(c *vCtx, raw json.RawMessage) {
			var cs c01Case
			vMust(json.Unmarshal(raw, &cs), "case")
			s := c01New(cs.Cfg, c)
			defer s.e.close()
			for i, op := range cs.Hist {
				s.apply(op, i == len(cs.Hist)-1 && cs.Obs == "", cs.Hist[:i])
			}
			if cs.Obs != "" {
				s.observe(cs.Hist)
			}
		},
	})
}
