package absnfs

// A scripted in-memory net.Conn for driving the real connection loop.

import (
	"io"
	"net"
	"sync"
	"time"
)

type vFakeConn struct {
	mu      sync.Mutex
	in      []byte
	out     []byte
	closed  bool
	remote  net.Addr
	reads   int
	onWrite func(total int)
	readErr error // returned once input is exhausted (default io.EOF)
}

func vNewFakeConn(in []byte, ip string, port int) *vFakeConn {
	return &vFakeConn{in: in, remote: &net.TCPAddr{IP: net.ParseIP(ip), Port: port}}
}

func (c *vFakeConn) Read(p []byte) (int, error) {
	c.mu.Lock()
	defer c.mu.Unlock()
	c.reads++
	if c.closed {
		return 0, net.ErrClosed
	}
	if len(c.in) == 0 {
		if c.readErr != nil {
			return 0, c.readErr
		}
		return 0, io.EOF
	}
	n := copy(p, c.in)
	c.in = c.in[n:]
	return n, nil
}

func (c *vFakeConn) Write(p []byte) (int, error) {
	c.mu.Lock()
	defer c.mu.Unlock()
	if c.closed {
		return 0, net.ErrClosed
	}
	c.out = append(c.out, p...)
	if c.onWrite != nil {
		c.onWrite(len(c.out))
	}
	return len(p), nil
}

func (c *vFakeConn) Close() error {
	c.mu.Lock()
	c.closed = true
	c.mu.Unlock()
	return nil
}

func (c *vFakeConn) isClosed() bool {
	c.mu.Lock()
	defer c.mu.Unlock()
	return c.closed
}

func (c *vFakeConn) output() []byte {
	c.mu.Lock()
	defer c.mu.Unlock()
	return append([]byte(nil), c.out...)
}

func (c *vFakeConn) unread() int {
	c.mu.Lock()
	defer c.mu.Unlock()
	return len(c.in)
}

func (c *vFakeConn) LocalAddr() net.Addr {
	return &net.TCPAddr{IP: net.ParseIP("127.0.0.1"), Port: 2049}
}
func (c *vFakeConn) RemoteAddr() net.Addr               { return c.remote }
func (c *vFakeConn) SetDeadline(t time.Time) error      { return nil }
func (c *vFakeConn) SetReadDeadline(t time.Time) error  { return nil }
func (c *vFakeConn) SetWriteDeadline(t time.Time) error { return nil }

// vServeStream feeds a byte stream to the real record-marking connection
// handler and returns what the server wrote, whether the handler returned
// (within a generous real-time limit), whether it closed the connection, and
// the value of a panic that escaped the handler, if any.
func vServeStream(e *vEnv, stream []byte, ip string, port int, limit time.Duration) (out []byte, returned, closed bool, panicked any) {
	out, returned, closed, panicked, _ = vServeStreamN(e, stream, ip, port, limit)
	return
}

// vServeStreamN also reports how many bytes of the stream the server left unread.
func vServeStreamN(e *vEnv, stream []byte, ip string, port int, limit time.Duration) (out []byte, returned, closed bool, panicked any, unread int) {
	conn := vNewFakeConn(stream, ip, port)
	defer func() { unread = conn.unread() }()
	done := make(chan any, 1)
	go func() {
		defer func() { done <- recover() }()
		e.srv.handleConnectionWithRecordMarking(conn, e.h)
	}()
	select {
	case p := <-done:
		return conn.output(), true, conn.isClosed(), p, 0
	case <-time.After(limit):
		return conn.output(), false, conn.isClosed(), nil, 0
	}
}

// vServeStreamRaw feeds a byte stream to the connection handler for the raw
// (no record marking) transport mode.
func vServeStreamRaw(e *vEnv, stream []byte, ip string, port int, limit time.Duration) (out []byte, returned, closed bool, panicked any) {
	conn := vNewFakeConn(stream, ip, port)
	done := make(chan any, 1)
	go func() {
		defer func() { done <- recover() }()
		e.srv.handleConnection(conn, e.h)
	}()
	select {
	case p := <-done:
		return conn.output(), true, conn.isClosed(), p
	case <-time.After(limit):
		return conn.output(), false, conn.isClosed(), nil
	}
}

// vSplitRecords splits a server output stream into records (independent reassembly).
func vSplitRecords(b []byte) (recs [][]byte, rest []byte) {
	for len(b) > 0 {
		rec, r, err := c13Reassemble(b)
		if err != nil {
			return recs, b
		}
		recs = append(recs, rec)
		b = r
	}
	return recs, nil
}
