package absnfs

// C29 — concurrent requests are deadlock-free and linearizable.

import "encoding/json"

func init() {
	vRegister(&vCheck{
		id: "C29", level: "model_checking", flavour: "sched", race: false, also: []string{"C29.race"},
		shards: func(string) int { return 16 },
		rule: "stateless model checking of the real server (source-instrumented, controlled scheduler; every backend call is a scheduling point): three client threads each send one or two requests through HandleCall over a shared tree (WRITE/WRITE/READ, WRITE/GETATTR/LOOKUP, CREATE/CREATE/READDIRPLUS, MKDIR/LOOKUP/LOOKUP, REMOVE/RENAME/READDIR, SETATTR(size)/READ/GETATTR; thorough adds LOOKUP/REMOVE+LOOKUP, LOOKUP/LOOKUP/READDIRPLUS, CREATE/CREATE of one name/LOOKUP, MKDIR/MKDIR of one name/REMOVE, WRITE/SETATTR+GETATTR), once with caches at minimal TTL (clock advanced at every backend call) and once with attribute, directory and negative caches at 1 h. Every choice sequence within D-bound 2 (thorough D-bound 3, P-bound 2) is executed. Oracles per execution: no panic, no thread blocked forever, every reply decodes strictly; strict mode: the vector of primary reply results plus the final backend tree equals that of one of the serial orders (all permutations respecting per-thread order, executed on the real code); both modes: every reported size / name / lookup verdict is one the object had at some moment of the execution; after quiescence a sequential probe (GETATTR on every handle any client holds, LOOKUP of every backend name, READDIR of every directory, LOOKUP of removed names) must agree with the backend, and the handle table and its path index must be mutually consistent.",
		assumptions: []string{"scheduling points are the synchronisation operations of the instrumented package plus every backend call; plain memory accesses between them are atomic steps (data races proper are the business of the free-running -race companion)",
			"post-operation attributes (wcc_data, post_op_attr of WRITE/SETATTR/READ) are advisory per RFC 1813 and are held to the weak clause only, not to the serial-equality clause"},
		run:    func(c *vCtx) { vSchedRun(c, "C29", c29Scenarios(c.thorough())) },
		replay: func(c *vCtx, raw json.RawMessage) { vSchedReplay(c, "C29", c29Scenarios(true), raw) },
	})
}
