package absnfs

// C30 — the TLS listener enforces the configured security floor.
// Complete enumeration of TLS configurations x client profiles over real
// loopback TLS, with certificates generated at run time.

import (
	"crypto/ecdsa"
	"crypto/elliptic"
	"crypto/rand"
	"crypto/tls"
	"crypto/x509"
	"crypto/x509/pkix"
	"encoding/json"
	"encoding/pem"
	"fmt"
	"math/big"
	"net"
	"os"
	"path/filepath"
	"time"

	"github.com/absfs/absnfs/internal/verif/recfs"
	"github.com/absfs/absnfs/internal/verif/wire"
)

type c30Case struct {
	Min, Max   uint16
	ClientAuth int
	CA         bool
	Ciphers    string // nil | tls12 | default
	Insecure   bool   `json:"insecure,omitempty"` // InsecureSkipVerify / PreferServerCipherSuites set (must not weaken the listener)
	Rotation   bool   `json:"rotation,omitempty"`
	After      string `json:"after,omitempty"` // rotation only: a runtime update made before the rotation (export | policy | tuning | twice)
}

type c30PKI struct {
	dir                      string
	caCert                   *x509.Certificate
	caKey                    *ecdsa.PrivateKey
	caPEM                    []byte
	serial                   int64
	clientCA, clientSelf, clientForeign tls.Certificate
}

func (p *c30PKI) issue(cn string, ca *x509.Certificate, caKey *ecdsa.PrivateKey, isCA, server bool) (certPEM, keyPEM []byte, cert *x509.Certificate, key *ecdsa.PrivateKey) {
	key, err := ecdsa.GenerateKey(elliptic.P256(), rand.Reader)
	vMust(err, "genkey")
	p.serial++
	tpl := &x509.Certificate{SerialNumber: big.NewInt(p.serial), Subject: pkix.Name{CommonName: cn},
		NotBefore: time.Now().Add(-time.Hour), NotAfter: time.Now().Add(24 * time.Hour),
		KeyUsage: x509.KeyUsageDigitalSignature, BasicConstraintsValid: true}
	if isCA {
		tpl.IsCA = true
		tpl.KeyUsage |= x509.KeyUsageCertSign
	}
	if server {
		tpl.ExtKeyUsage = []x509.ExtKeyUsage{x509.ExtKeyUsageServerAuth}
		tpl.IPAddresses = []net.IP{net.ParseIP("127.0.0.1")}
		tpl.DNSNames = []string{"localhost"}
	} else if !isCA {
		tpl.ExtKeyUsage = []x509.ExtKeyUsage{x509.ExtKeyUsageClientAuth}
	}
	parent, signer := tpl, key
	if ca != nil {
		parent, signer = ca, caKey
	}
	der, err := x509.CreateCertificate(rand.Reader, tpl, parent, &key.PublicKey, signer)
	vMust(err, "create cert")
	cert, err = x509.ParseCertificate(der)
	vMust(err, "parse cert")
	kb, err := x509.MarshalECPrivateKey(key)
	vMust(err, "marshal key")
	return pem.EncodeToMemory(&pem.Block{Type: "CERTIFICATE", Bytes: der}), pem.EncodeToMemory(&pem.Block{Type: "EC PRIVATE KEY", Bytes: kb}), cert, key
}

func c30NewPKI() *c30PKI {
	dir, err := os.MkdirTemp(".", "c30-certs-")
	vMust(err, "tempdir")
	dir, _ = filepath.Abs(dir)
	p := &c30PKI{dir: dir, serial: 100}
	var caKeyPEM []byte
	p.caPEM, caKeyPEM, p.caCert, p.caKey = p.issue("verif-ca", nil, nil, true, false)
	_ = caKeyPEM
	vMust(os.WriteFile(filepath.Join(dir, "ca.pem"), p.caPEM, 0o600), "write")
	p.writeServer("server-one")
	mk := func(cn string, ca *x509.Certificate, caKey *ecdsa.PrivateKey) tls.Certificate {
		c, k, _, _ := p.issue(cn, ca, caKey, false, false)
		tc, err := tls.X509KeyPair(c, k)
		vMust(err, "keypair")
		return tc
	}
	p.clientCA = mk("client-ca-signed", p.caCert, p.caKey)
	p.clientSelf = mk("client-self-signed", nil, nil)
	_, _, fca, fkey := p.issue("foreign-ca", nil, nil, true, false)
	p.clientForeign = mk("client-foreign", fca, fkey)
	return p
}

func (p *c30PKI) writeServer(cn string) {
	c, k, _, _ := p.issue(cn, p.caCert, p.caKey, false, true)
	vMust(os.WriteFile(filepath.Join(p.dir, "server.pem"), c, 0o600), "write")
	vMust(os.WriteFile(filepath.Join(p.dir, "server.key"), k, 0o600), "write")
}

func (p *c30PKI) cleanup() { os.RemoveAll(p.dir) }

var c30Versions = []uint16{tls.VersionTLS10, tls.VersionTLS11, tls.VersionTLS12, tls.VersionTLS13}

func c30VersName(v uint16) string {
	switch v {
	case 0:
		return "0"
	case tls.VersionTLS10:
		return "1.0"
	case tls.VersionTLS11:
		return "1.1"
	case tls.VersionTLS12:
		return "1.2"
	case tls.VersionTLS13:
		return "1.3"
	}
	return fmt.Sprint(v)
}

// c30Client performs a handshake offering exactly one version with the given
// client certificate and then a NULL RPC. completed = the NULL call was answered.
func c30Client(port int, p *c30PKI, vers uint16, cert *tls.Certificate) (completed bool, negotiated uint16, leafCN string, err error) {
	pool := x509.NewCertPool()
	pool.AppendCertsFromPEM(p.caPEM)
	cfg := &tls.Config{MinVersion: vers, MaxVersion: vers, RootCAs: pool, ServerName: "localhost"}
	if cert != nil {
		// present the certificate unconditionally (Go's default would withhold one
		// whose issuer is not among the CAs the server names)
		cfg.GetClientCertificate = func(*tls.CertificateRequestInfo) (*tls.Certificate, error) { return cert, nil }
	}
	d := &net.Dialer{Timeout: 10 * time.Second}
	conn, err := tls.DialWithDialer(d, "tcp", fmt.Sprintf("127.0.0.1:%d", port), cfg)
	if err != nil {
		return false, 0, "", err
	}
	defer conn.Close()
	st := conn.ConnectionState()
	negotiated = st.Version
	if len(st.PeerCertificates) > 0 {
		leafCN = st.PeerCertificates[0].Subject.CommonName
	}
	rb, prob := rpcExchange(conn, wire.Call(0x3001, wire.ProgNFS, 3, 0, vCredSys(0, 0, nil), nil))
	if prob != "" {
		return false, negotiated, leafCN, fmt.Errorf("%s", prob)
	}
	if _, err := wire.ParseReply(rb); err != nil {
		return false, negotiated, leafCN, err
	}
	return true, negotiated, leafCN, nil
}

func c30One(c *vCtx, p *c30PKI, cs c30Case) {
	c.beat(func() any { return cs })
	tc := &TLSConfig{Enabled: true, CertFile: filepath.Join(p.dir, "server.pem"), KeyFile: filepath.Join(p.dir, "server.key"),
		ClientAuth: tls.ClientAuthType(cs.ClientAuth), MinVersion: cs.Min, MaxVersion: cs.Max}
	if cs.CA {
		tc.CAFile = filepath.Join(p.dir, "ca.pem")
	}
	if cs.Insecure {
		tc.InsecureSkipVerify, tc.PreferServerCipherSuites = true, true
	}
	switch cs.Ciphers {
	case "tls12":
		tc.CipherSuites = []uint16{tls.TLS_ECDHE_ECDSA_WITH_AES_128_GCM_SHA256, tls.TLS_ECDHE_ECDSA_WITH_AES_256_GCM_SHA384}
	case "default":
		tc.CipherSuites = DefaultTLSConfig().CipherSuites
	}
	cfgName := fmt.Sprintf("min=%s,max=%s,auth=%d,ca=%v,ciphers=%s", c30VersName(cs.Min), c30VersName(cs.Max), cs.ClientAuth, cs.CA, cs.Ciphers)
	if cs.Insecure {
		cfgName += ",insecure-skip-verify"
	}
	fs := recfs.New()
	fs.NoLog = true
	nfs, err := New(fs, ExportOptions{MaxWorkers: 2, TLS: tc})
	if err != nil {
		c.outcome("rejected-by-New")
		return
	}
	defer nfs.Close()
	srv, err := NewServer(ServerOptions{Port: 0, Hostname: "127.0.0.1", UseRecordMarking: true})
	vMust(err, "NewServer")
	srv.logger.SetOutput(devNull{})
	srv.SetHandler(nfs)
	if err := srv.Listen(); err != nil {
		c.outcome("rejected-by-Listen")
		c.res.Evaluations++
		return
	}
	defer srv.Stop()
	port := srv.GetPort()
	bad := func(sig, msg string) { c.violation("C30|"+sig, cfgName+": "+msg, cs) }
	if cs.Rotation {
		c.res.Evaluations++
		ok, _, cn1, err := c30Client(port, p, tls.VersionTLS13, &p.clientCA)
		if !ok {
			bad("rotation-setup-handshake-fails", fmt.Sprint(err))
			return
		}
		// an unrelated runtime update before the rotation: the settings object handed out
		// afterwards must still reach the listener
		upd := func() {
			switch cs.After {
			case "export", "twice":
				o := nfs.GetExportOptions()
				o.ReadOnly = !o.ReadOnly
				if err := nfs.UpdateExportOptions(o); err != nil {
					bad("rotation-setup-update-fails", err.Error())
				}
			case "policy":
				po := *nfs.policy.Load()
				po.ReadOnly = !po.ReadOnly
				if err := nfs.UpdatePolicyOptions(po); err != nil {
					bad("rotation-setup-update-fails", err.Error())
				}
			case "tuning":
				nfs.UpdateTuningOptions(func(t *TuningOptions) { t.TransferSize = 32768 })
			}
		}
		upd()
		if cs.After == "twice" {
			upd()
		}
		p.writeServer("server-two")
		defer p.writeServer("server-one")
		opts := nfs.GetExportOptions()
		if opts.TLS == nil {
			bad("rotation-no-tls-settings-returned", "GetExportOptions().TLS is nil")
			return
		}
		if err := opts.TLS.ReloadCertificates(); err != nil {
			bad("rotation-reload-fails", err.Error())
			return
		}
		ok, _, cn2, err := c30Client(port, p, tls.VersionTLS13, &p.clientCA)
		if !ok {
			bad("rotation-handshake-after-reload-fails", fmt.Sprint(err))
			return
		}
		if cn2 != "server-two" {
			sg := "rotation-not-effective"
			if cs.After != "" {
				sg += "|after-update=" + cs.After
			}
			bad(sg, fmt.Sprintf("(runtime update before the rotation: %q) after replacing the certificate files and calling GetExportOptions().TLS.ReloadCertificates() a new handshake still presents %q (before: %q), expected the reloaded certificate \"server-two\"", cn2, cn1))
		}
		c.outcome("rotation:" + cn2)
		return
	}
	certs := []struct {
		name string
		c    *tls.Certificate
	}{{"none", nil}, {"self-signed", &p.clientSelf}, {"ca-signed", &p.clientCA}, {"foreign-ca", &p.clientForeign}}
	for _, v := range c30Versions {
		for _, cl := range certs {
			c.res.Evaluations++
			c.res.Distinct++
			ok, neg, _, _ := c30Client(port, p, v, cl.c)
			c.outcome(fmt.Sprintf("completed=%v", ok))
			if !ok {
				continue
			}
			if neg < tls.VersionTLS12 {
				bad(fmt.Sprintf("handshake-below-tls12|negotiated=%s", c30VersName(neg)),
					fmt.Sprintf("a client offering only TLS %s (cert %s) completed a handshake and was served", c30VersName(v), cl.name))
			}
			if cs.ClientAuth == int(tls.RequireAndVerifyClientCert) && cs.CA && cl.name != "ca-signed" {
				bad("unverified-client-served|cert="+cl.name, fmt.Sprintf("RequireAndVerifyClientCert with a CA: a client with certificate '%s' (TLS %s) was served", cl.name, c30VersName(v)))
			}
			if cs.ClientAuth == int(tls.RequireAnyClientCert) && cl.name == "none" {
				bad("client-without-certificate-served|auth=require-any", fmt.Sprintf("RequireAnyClientCert: a client without a certificate (TLS %s) was served", c30VersName(v)))
			}
			if cs.ClientAuth == int(tls.VerifyClientCertIfGiven) && cs.CA && (cl.name == "self-signed" || cl.name == "foreign-ca") {
				bad("unverified-client-served|auth=verify-if-given|cert="+cl.name, fmt.Sprintf("VerifyClientCertIfGiven with a CA: a client with certificate '%s' was served", cl.name))
			}
		}
	}
}

type devNull struct{}

func (devNull) Write(b []byte) (int, error) { return len(b), nil }

func init() {
	vRegister(&vCheck{
		id: "C30", level: "exploration", flavour: "plain",
		shards: func(string) int { return 10 },
		rule: "complete product: MinVersion x MaxVersion in {0,1.0,1.1,1.2,1.3}^2 x ClientAuth (all 5 modes) x CA file {none, CA} x {InsecureSkipVerify+PreferServerCipherSuites unset; set (quick: for the version ranges unset and 1.2..1.3; thorough: all)} x cipher list {nil (quick); + explicit TLS1.2 list, DefaultTLSConfig list (thorough)}; every configuration New/Listen accept is started on loopback and attacked by 16 clients: offering exactly one protocol version in {1.0,1.1,1.2,1.3} x client certificate {none, self-signed, CA-signed, signed by a foreign CA}; 'handshake completed' = a NULL RPC sent over the TLS connection is answered. Oracle: completed => negotiated >= TLS 1.2; RequireAndVerifyClientCert with a CA => only the CA-signed client completes (likewise VerifyIfGiven rejects bad certificates, RequireAny rejects no certificate). Rotation: certificate files replaced, GetExportOptions().TLS.ReloadCertificates() called as documented, a new handshake must present the new leaf; also after an unrelated runtime update (UpdateExportOptions once / twice, UpdatePolicyOptions, UpdateTuningOptions) made before the rotation. Certificates (ECDSA P-256) are generated at run time and removed.",
		assumptions: []string{"the configuration and client space is enumerated completely; each handshake is one real execution of the Go TLS stack", "RequireAndVerifyClientCert without a CA file is not judged (no configured CA)"},
		run: func(c *vCtx) {
			p := c30NewPKI()
			defer p.cleanup()
			vs := []uint16{0, tls.VersionTLS10, tls.VersionTLS11, tls.VersionTLS12, tls.VersionTLS13}
			ciphers := []string{"nil"}
			if c.thorough() {
				ciphers = []string{"nil", "tls12", "default"}
			}
			idx := 0
			for _, ci := range ciphers {
				for _, mn := range vs {
					for _, mx := range vs {
						for auth := 0; auth < 5; auth++ {
							for _, ca := range []bool{false, true} {
								idx++
								if !c.mine(idx) {
									continue
								}
								cs := c30Case{Min: mn, Max: mx, ClientAuth: auth, CA: ca, Ciphers: ci}
								c30One(c, p, cs)
								if idx%37 == 0 {
									c.sample(cs)
								}
								// the client-side knob InsecureSkipVerify (and the server cipher preference) set on
								// the listener's configuration: quick for the version ranges {unset, 1.2..1.3}
								if c.thorough() || (mn == 0 && mx == 0) || (mn == tls.VersionTLS12 && mx == tls.VersionTLS13) {
									cs.Insecure = true
									c30One(c, p, cs)
								}
							}
						}
					}
				}
			}
			if c.shard == 0 {
				for _, auth := range []int{0, 4} {
					for _, after := range []string{"", "export", "policy", "tuning", "twice"} {
						c30One(c, p, c30Case{Min: tls.VersionTLS12, Max: tls.VersionTLS13, ClientAuth: auth, CA: true, Ciphers: "nil", Rotation: true, After: after})
					}
				}
			}
			c.res.Bounds["configurations"] = idx
		},
		replay: func(c *vCtx, raw json.RawMessage) {
			var cs c30Case
			vMust(json.Unmarshal(raw, &cs), "case")
			p := c30NewPKI()
			defer p.cleanup()
			c30One(c, p, cs)
		},
	})
}
