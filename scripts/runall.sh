#!/bin/bash
# runall.sh [quick|thorough] [ID ...]: run every claimed check of MANIFEST.json (or the listed ones) and summarise exit codes.
cd /verif
tier=${1:-quick}; shift
ids=${@:-$(jq -r '.checks[].property_id' MANIFEST.json)}
fail=0
for id in $ids; do
  s=$(date +%s)
  out=$(bin/vcheck $id --tier $tier 2>&1); rc=$?
  echo "$id rc=$rc $(( $(date +%s)-s ))s $(echo "$out" | tail -1)"
  if [ $rc -ne 0 ]; then fail=1; echo "$out" | grep -A2 '^VIOLATION' | head -20; fi
done
exit $fail
