package absnfs

// Stateless model checking of small concurrent scenarios under the vsched
// scheduler (sched build flavour): iterative deviation bounding over the
// choice sequences of the real, instrumented code.

import (
	"encoding/json"
	"fmt"
	"os"
	"sort"
	"strings"
	"time"

	"github.com/absfs/absnfs/internal/verif/vsched"
)

// vScn is one scenario: build returns the root thread body and a judge that is
// called after the execution finished (outside the scheduler).
type vScn struct {
	name    string
	horizon time.Duration
	capD    int // if > 0: deviation bounds above this are lowered to it in the quick tier (large scenarios)
	build   func() (root func(), judge func(res *vsched.Result) (outcome string, bad []vScnBad))
}

type vScnBad struct {
	sig string
	msg string
}

type vScnCase struct {
	Scenario string `json:"scenario"`
	Choices  []int  `json:"choices"`
	Model    string `json:"cost_model"`
	Bound    int    `json:"bound"`
}

// vCost is the cost of taking alternative alt at point p under a cost model:
// "D" every deviation from the default scheduler costs 1; "P" only preemptions
// of a runnable thread and early timers cost (CHESS).
func vCost(model string, p vsched.PointRec, alt int) int {
	if alt == 0 {
		return 0
	}
	if model == "D" {
		return 1
	}
	if p.Kind == 's' {
		return 0
	}
	if p.Early && alt == p.N-1 {
		return 1
	}
	if p.Preempt {
		return 1
	}
	return 0
}

type vExploreStats struct {
	executions  int64
	points      int64
	maxPoints   int
	outcomes    map[string]int64
	complete    bool
	diverged    int64
	stepCapped  int64
	endStates   map[string]struct{}
}

// vExplore runs the scenario for every choice sequence whose cost stays within
// bound. It returns statistics; violations are reported through c.
func vExplore(c *vCtx, prop string, scn vScn, model string, bound int, deadline time.Time) *vExploreStats {
	st := &vExploreStats{outcomes: map[string]int64{}, complete: true, endStates: map[string]struct{}{}}
	type item struct {
		prefix []int
		cost   int
	}
	runOne := func(prefix []int) *vsched.Result {
		root, judge := scn.build()
		res := vsched.Run(vsched.Options{Prefix: prefix, Horizon: scn.horizon}, root)
		st.executions++
		st.points += int64(len(res.Points))
		if len(res.Points) > st.maxPoints {
			st.maxPoints = len(res.Points)
		}
		if res.Diverged != "" {
			st.diverged++
		}
		if res.StepCap {
			st.stepCapped++
		}
		outcome, bad := judge(res)
		st.outcomes[outcome]++
		st.endStates[outcome] = struct{}{}
		for _, b := range bad {
			c.violation(prop+"|"+b.sig+"|scn="+scn.name, fmt.Sprintf("scenario %s, schedule %v: %s", scn.name, res.Choices(), b.msg),
				vScnCase{Scenario: scn.name, Choices: res.Choices(), Model: model, Bound: bound})
		}
		return res
	}
	stack := []item{{nil, 0}}
	first := true
	idx := 0
	stopEarly := os.Getenv("VERIF_STOP_ON_VIOLATION") != "" // self-test aid: one counterexample is enough
	for len(stack) > 0 {
		if stopEarly && len(c.res.Violations) > 0 {
			st.complete = false
			break
		}
		it := stack[len(stack)-1]
		stack = stack[:len(stack)-1]
		if !deadline.IsZero() && time.Now().After(deadline) {
			st.complete = false
			break
		}
		c.beat(func() any { return vScnCase{Scenario: scn.name, Choices: it.prefix, Model: model, Bound: bound} })
		if first && c.shard != 0 {
			// the deviation-free execution belongs to shard 0; other shards still need its points
		}
		res := runOne(it.prefix)
		cost := it.cost
		for i := len(it.prefix); i < len(res.Points); i++ {
			p := res.Points[i]
			for alt := 1; alt < p.N; alt++ {
				nc := cost + vCost(model, p, alt)
				if nc > bound {
					continue
				}
				if first {
					idx++
					if !c.mine(idx) {
						continue
					}
				}
				np := make([]int, i+1)
				copy(np, res.Choices()[:i])
				np[i] = alt
				stack = append(stack, item{np, nc})
			}
		}
		first = false
	}
	return st
}

func vMergeStats(c *vCtx, scn string, model string, bound int, st *vExploreStats) {
	c.res.Traces += st.executions
	c.res.Transitions += st.points
	c.res.States += int64(len(st.endStates))
	c.res.Evaluations += st.executions
	if !st.complete {
		c.res.Exhaustive = false
		c.note("scenario %s: %s-bound %d not completed within the time budget", scn, model, bound)
	}
	if st.diverged > 0 {
		c.count("replay_divergences", st.diverged)
	}
	if st.stepCapped > 0 {
		c.count("executions_stopped_by_step_cap", st.stepCapped)
	}
	var outs []string
	for o, n := range st.outcomes {
		outs = append(outs, fmt.Sprintf("%s x%d", o, n))
		c.res.Outcomes[scn+": "+o] += n
	}
	sort.Strings(outs)
	c.sample(map[string]any{"scenario": scn, "cost_model": model, "bound": bound, "executions": st.executions, "scheduling_points": st.points,
		"max_points_per_execution": st.maxPoints, "distinct_outcomes": len(st.outcomes), "outcomes": strings.Join(outs, "; "), "complete": st.complete})
	if len(st.outcomes) <= 1 && st.executions > 50 {
		c.note("scenario %s: a single outcome over %d executions — the threads may not interact", scn, st.executions)
	}
}

// vSchedRun explores a list of scenarios with the tier's bounds.
func vSchedRun(c *vCtx, prop string, scns []vScn) {
	vSchedRunPlans(c, prop, scns, []vPlan{{"D", 2}}, []vPlan{{"D", 3}, {"P", 2}})
}

type vPlan struct {
	model string
	bound int
}

func vSchedRunPlans(c *vCtx, prop string, scns []vScn, quick, thorough []vPlan) {
	vSchedRunBudget(c, prop, scns, quick, thorough, 40*time.Minute)
}

// vSchedRunBudget: as vSchedRunPlans with an explicit wall-clock budget for the thorough tier.
func vSchedRunBudget(c *vCtx, prop string, scns []vScn, quick, thorough []vPlan, thoroughBudget time.Duration) {
	plans := quick
	budget := 30 * time.Minute
	if c.thorough() {
		plans = thorough
		budget = thoroughBudget
	}
	if f := os.Getenv("VERIF_SCN"); f != "" { // debugging aid: restrict to scenarios whose name contains f
		var keep []vScn
		for _, scn := range scns {
			if strings.Contains(scn.name, f) {
				keep = append(keep, scn)
			}
		}
		scns = keep
		c.res.Exhaustive = false
		c.note("VERIF_SCN=%s: only %d scenarios explored", f, len(scns))
		if len(scns) == 0 {
			return
		}
	}
	// the budget is shared: what one scenario does not use rolls over to the next ones
	end := time.Now().Add(budget)
	left := len(scns) * len(plans)
	for _, scn := range scns {
		for _, pl := range plans {
			per := time.Until(end) / time.Duration(left)
			left--
			bound := pl.bound
			if !c.thorough() && scn.capD > 0 && bound > scn.capD {
				bound = scn.capD
			}
			st := vExplore(c, prop, scn, pl.model, bound, time.Now().Add(per))
			vMergeStats(c, scn.name, pl.model, bound, st)
		}
	}
	c.res.Bounds["cost_models"] = "D = every deviation from the default scheduler costs 1; P = only preemptions of a runnable thread and early timers cost (CHESS)"
	var ps []string
	for _, pl := range plans {
		ps = append(ps, fmt.Sprintf("%s-bound %d", pl.model, pl.bound))
	}
	c.res.Bounds["bounds"] = strings.Join(ps, ", ")
}

// vSchedReplay re-executes one recorded schedule.
func vSchedReplay(c *vCtx, prop string, scns []vScn, raw json.RawMessage) {
	var cs vScnCase
	vMust(json.Unmarshal(raw, &cs), "case")
	for _, scn := range scns {
		if scn.name != cs.Scenario {
			continue
		}
		root, judge := scn.build()
		res := vsched.Run(vsched.Options{Prefix: cs.Choices, Horizon: scn.horizon}, root)
		outcome, bad := judge(res)
		c.note("replay outcome: %s | %s | now=%v", outcome, res.Summary(), res.Now)
		if tf := os.Getenv("VERIF_TRACE"); tf != "" { // debugging aid: where the schedule deviates
			var sb strings.Builder
			fmt.Fprintf(&sb, "outcome: %s | %s | now=%v\n", outcome, res.Summary(), res.Now)
			for i, p := range res.Points {
				if p.Chosen != 0 {
					fmt.Fprintf(&sb, "point %d: chosen %d of %d kind=%c preempt=%v early=%v\n", i, p.Chosen, p.N, p.Kind, p.Preempt, p.Early)
				}
			}
			os.WriteFile(tf, []byte(sb.String()), 0o644)
		}
		for _, b := range bad {
			c.violation(prop+"|"+b.sig+"|scn="+scn.name, fmt.Sprintf("scenario %s, schedule %v: %s", scn.name, res.Choices(), b.msg), cs)
		}
		if res.Diverged != "" {
			c.note("replay diverged: %s", res.Diverged)
		}
	}
}

// vNamedBlocked returns the harness threads (by name prefix) that are still blocked.
func vNamedBlocked(res *vsched.Result, prefixes ...string) []string {
	var out []string
	for _, b := range res.Blocked {
		for _, p := range prefixes {
			if strings.HasPrefix(b, p) {
				out = append(out, b)
			}
		}
	}
	sort.Strings(out)
	return out
}
