package absnfs

// Namespace engine shared by C02 (tree refinement + cache transparency) and
// C04 (attribute consistency): explicit-state search over request histories on
// the real server, in lockstep with an uncached twin, against a POSIX-like
// tree model, with every attribute-carrying reply harvested.

import (
	"encoding/json"
	"fmt"
	"os"
	"path"
	"sort"
	"strings"
	"time"

	"github.com/absfs/absnfs/internal/verif/recfs"
	"github.com/absfs/absnfs/internal/verif/vtime"
	"github.com/absfs/absnfs/internal/verif/wire"
)

type nsOp struct {
	Kind   string `json:"kind"`
	H      string `json:"h,omitempty"` // path the client holds the handle for
	Name   string `json:"name,omitempty"`
	H2     string `json:"h2,omitempty"`
	Name2  string `json:"name2,omitempty"`
	Target string `json:"target,omitempty"`
	Mode   uint32 `json:"mode,omitempty"`
	Size   uint64 `json:"size,omitempty"`
}

type nsCfg struct {
	Name    string        `json:"name"`
	TTL     time.Duration `json:"attr_ttl"`
	DirC    bool          `json:"dir_cache"`
	NegC    bool          `json:"neg_cache"`
	Initial string        `json:"initial"` // empty | rich
}

type nsNode struct {
	kind   string // f d l
	data   string
	target string
	id     int // object identity: a new object at the same path has a new id
}

type nsSide struct {
	e       *vEnv
	handles map[string]uint64 // path -> handle value issued for it
	issued  map[string]bool   // paths for which the last request returned a handle
}

type nsState struct {
	cfg   nsCfg
	prop  string
	c     *vCtx
	main  *nsSide
	twin  *nsSide // uncached baseline (C02 only)
	model map[string]*nsNode
	held  []string // paths for which the client holds a handle (in order of acquisition)
	objAt map[string]int // path -> identity of the object the client's handle was issued for
	nextID int
}

type nsCase struct {
	Cfg  nsCfg  `json:"cfg"`
	Hist []nsOp `json:"hist"`
}

func nsOptions(cfg nsCfg) ExportOptions {
	return ExportOptions{AttrCacheTimeout: cfg.TTL, AttrCacheSize: 64, EnableDirCache: cfg.DirC, DirCacheTimeout: time.Hour,
		CacheNegativeLookups: cfg.NegC, NegativeCacheTimeout: time.Hour}
}

func nsPlant(fs *recfs.FS, initial string) {
	if initial != "rich" && initial != "held" && initial != "afterneg" {
		return
	}
	vMust(fs.Mkdir("/a", 0o755), "mkdir")
	f, err := fs.Create("/a/b")
	vMust(err, "create")
	f.Write([]byte("xy"))
	f.Close()
	if initial == "afterneg" {
		return // "/b" is made, probed and removed again by requests (nsNew)
	}
	vMust(fs.Symlink("a", "/b"), "symlink") // link to a directory
}

func nsNew(cfg nsCfg, prop string, c *vCtx) *nsState {
	vtime.Set(0)
	s := &nsState{cfg: cfg, prop: prop, c: c, model: map[string]*nsNode{"/": {kind: "d"}}}
	mk := func(o ExportOptions) *nsSide {
		e, err := vNewEnv(o, func(fs *recfs.FS) { nsPlant(fs, cfg.Initial) })
		vMust(err, "env")
		side := &nsSide{e: e, handles: map[string]uint64{}}
		h, err := e.mnt("/")
		vMust(err, "mnt")
		side.handles["/"] = h
		if cfg.Initial == "afterneg" {
			for _, p := range []string{"/a", "/a/b"} {
				fh, err := e.lookupFH(side.handles[path.Dir(p)], path.Base(p))
				vMust(err, "lookup "+p)
				side.handles[p] = fh
			}
		}
		if cfg.Initial == "held" {
			// the client already holds a handle for every planted object
			for _, p := range []string{"/a", "/b", "/a/b"} {
				fh, err := e.lookupFH(side.handles[path.Dir(p)], path.Base(p))
				vMust(err, "lookup "+p)
				side.handles[p] = fh
			}
		}
		return side
	}
	s.main = mk(nsOptions(cfg))
	if prop == "C02" {
		s.twin = mk(ExportOptions{AttrCacheTimeout: 1, AttrCacheSize: 64})
	}
	if cfg.Initial == "rich" || cfg.Initial == "held" {
		s.model["/a"] = &nsNode{kind: "d"}
		s.model["/a/b"] = &nsNode{kind: "f", data: "xy"}
		s.model["/b"] = &nsNode{kind: "l", target: "a"}
	}
	if cfg.Initial == "afterneg" {
		s.model["/a"] = &nsNode{kind: "d"}
		s.model["/a/b"] = &nsNode{kind: "f", data: "xy"}
	}
	s.held = []string{"/"}
	if cfg.Initial == "held" {
		s.held = []string{"/", "/a", "/a/b", "/b"}
	}
	if cfg.Initial == "afterneg" {
		s.held = []string{"/", "/a", "/a/b"}
	}
	s.objAt = map[string]int{}
	for _, n := range s.model {
		s.nextID++
		n.id = s.nextID
	}
	for _, p := range s.held {
		s.objAt[p] = s.model[p].id
	}
	if cfg.Initial == "afterneg" {
		// a non-initial start state reached by requests: a directory /b existed, the client
		// looked up two names in it that did not exist, and removed it again; the client still
		// holds the (now dangling) handle, the server whatever it cached below /b
		for _, op := range []nsOp{{Kind: "mkdir", H: "/", Name: "b"}, {Kind: "lookup", H: "/b", Name: "a"}, {Kind: "lookup", H: "/b", Name: "b"}, {Kind: "rmdir", H: "/", Name: "b"}} {
			s.apply(op, false, nil)
		}
	}
	return s
}

func (s *nsState) close() {
	s.main.e.close()
	if s.twin != nil {
		s.twin.e.close()
	}
}

func (s *nsState) children(dir string) []string {
	var out []string
	for p := range s.model {
		if p != "/" && path.Dir(p) == dir {
			out = append(out, path.Base(p))
		}
	}
	sort.Strings(out)
	return out
}

func (s *nsState) modelDump() string {
	var ps []string
	for p := range s.model {
		ps = append(ps, p)
	}
	sort.Strings(ps)
	var sb strings.Builder
	for _, p := range ps {
		n := s.model[p]
		fmt.Fprintf(&sb, "%s %s %q %q\n", p, n.kind, n.data, n.target)
	}
	return sb.String()
}

func nsBackendDump(fs *recfs.FS) string {
	var sb strings.Builder
	for _, n := range fs.Dump() {
		fmt.Fprintf(&sb, "%s %s %q %q\n", n.Path, n.Kind, n.Data, n.Target)
	}
	return sb.String()
}

func (s *nsState) key() string {
	var sb strings.Builder
	sb.WriteString(s.modelDump())
	for _, h := range s.held { // which held handles name an object that no longer exists (oracle latitude differs)
		if n := s.model[h]; h != "/" && (n == nil || n.id != s.objAt[h]) {
			sb.WriteString("!" + h)
		}
	}
	sb.WriteString("|" + nsBackendDump(s.main.e.fs) + "|")
	for _, side := range []*nsSide{s.main, s.twin} {
		if side == nil {
			continue
		}
		for _, p := range vSortedKeys(side.handles) {
			fmt.Fprintf(&sb, "%s>%d,", p, side.handles[p])
		}
		nfs := side.e.nfs
		fm := nfs.fileMap
		ids := make([]uint64, 0, len(fm.handles))
		for id := range fm.handles {
			ids = append(ids, id)
		}
		sort.Slice(ids, func(i, j int) bool { return ids[i] < ids[j] })
		for _, id := range ids {
			if n, ok := fm.handles[id].(*NFSNode); ok && n.attrs != nil {
				fmt.Fprintf(&sb, "%d=%s:%o:%d:%d:%d;", id, n.path, uint32(n.attrs.Mode), n.attrs.Size, n.attrs.Uid, n.attrs.Gid)
			}
		}
		sb.WriteString("|")
		now := vtime.Now()
		var ck []string
		for k, ce := range nfs.attrCache.cache {
			ck = append(ck, fmt.Sprintf("%s:%v:%v", k, ce.isNegative, now.Before(ce.expireAt)))
		}
		sort.Strings(ck)
		sb.WriteString(strings.Join(ck, ",") + "|")
		if nfs.dirCache != nil {
			var dk []string
			for k, de := range nfs.dirCache.entries {
				var names []string
				for _, fi := range de.entries {
					names = append(names, fi.Name())
				}
				dk = append(dk, fmt.Sprintf("%s:%v:%s", k, !now.After(de.validUntil), strings.Join(names, "+")))
			}
			sort.Strings(dk)
			sb.WriteString(strings.Join(dk, ","))
		}
		sb.WriteString("||")
	}
	return sb.String()
}

var nsNames = []string{"a", "b"}

func (s *nsState) enabled() []nsOp {
	var ops []nsOp
	var dirs []string
	for _, h := range s.held {
		// handles the client believes to be directories (it may be wrong after a removal)
		ops = append(ops, nsOp{Kind: "getattr", H: h})
		isDirish := h == "/" || (s.model[h] != nil && s.model[h].kind == "d") || s.model[h] == nil
		if s.model[h] != nil && s.model[h].kind == "l" {
			ops = append(ops, nsOp{Kind: "readlink", H: h})
			isDirish = true // exercised as a directory handle too: must answer NOTDIR
		}
		if !isDirish {
			if s.prop == "C04" {
				ops = append(ops, nsOp{Kind: "access", H: h}, nsOp{Kind: "read", H: h})
			}
			ops = append(ops, nsOp{Kind: "lookup", H: h, Name: "a"}) // through a file handle: NOTDIR
			continue
		}
		dirs = append(dirs, h)
		ops = append(ops, nsOp{Kind: "readdir", H: h}, nsOp{Kind: "readdirplus", H: h})
		for _, n := range nsNames {
			ops = append(ops, nsOp{Kind: "lookup", H: h, Name: n}, nsOp{Kind: "create", H: h, Name: n}, nsOp{Kind: "mkdir", H: h, Name: n},
				nsOp{Kind: "symlink", H: h, Name: n, Target: "a"}, nsOp{Kind: "remove", H: h, Name: n}, nsOp{Kind: "rmdir", H: h, Name: n})
			if s.prop == "C02" {
				ops = append(ops, nsOp{Kind: "symlink", H: h, Name: n, Target: "b/x"})
			}
			if s.prop == "C04" { // UNCHECKED CREATE with size 0 in its attributes: truncates an existing file
				ops = append(ops, nsOp{Kind: "createtrunc", H: h, Name: n})
			}
		}
	}
	for _, d1 := range dirs {
		for _, d2 := range dirs {
			for _, n1 := range nsNames {
				for _, n2 := range nsNames {
					ops = append(ops, nsOp{Kind: "rename", H: d1, Name: n1, H2: d2, Name2: n2})
				}
			}
		}
	}
	if s.prop == "C04" {
		for _, h := range s.held {
			ops = append(ops, nsOp{Kind: "fsstat", H: h}, nsOp{Kind: "fsinfo", H: h}, nsOp{Kind: "pathconf", H: h})
			if n := s.model[h]; n != nil && n.kind == "f" {
				ops = append(ops, nsOp{Kind: "write", H: h}, nsOp{Kind: "commit", H: h})
			}
		}
		for _, h := range s.held {
			if h == "/" {
				continue
			}
			for _, m := range []uint32{0, 0o644, 0o755, 0o7777, 0o644 | 1<<27, 0o755 | 1<<31, 0x4000 | 0o755} {
				ops = append(ops, nsOp{Kind: "setmode", H: h, Mode: m})
			}
			ops = append(ops, nsOp{Kind: "setsize", H: h, Size: 1}, nsOp{Kind: "setowner", H: h})
		}
	}
	if s.cfg.TTL > time.Second || s.cfg.DirC || s.cfg.NegC {
		ops = append(ops, nsOp{Kind: "advance"})
	}
	return ops
}

// nsExpect: the model's verdict for an operation. ok = must succeed, fail =
// must fail, either = latitude (both outcomes listed by apply functions).
type nsVerdict struct {
	ok     bool
	either bool
	apply  func() // effect on the model when the server reports success
}

func (s *nsState) isDir(p string) bool { n := s.model[p]; return n != nil && n.kind == "d" }

func (s *nsState) subtree(p string) []string {
	var out []string
	for q := range s.model {
		if q == p || strings.HasPrefix(q, strings.TrimSuffix(p, "/")+"/") {
			out = append(out, q)
		}
	}
	return out
}

func (s *nsState) expect(op nsOp) nsVerdict {
	fail := nsVerdict{}
	child := pjoin(op.H, op.Name)
	switch op.Kind {
	case "getattr", "access", "fsstat", "fsinfo", "pathconf":
		return nsVerdict{ok: s.model[op.H] != nil}
	case "write", "commit":
		n := s.model[op.H]
		if n == nil || n.kind != "f" {
			return nsVerdict{either: true}
		}
		if op.Kind == "commit" {
			return nsVerdict{ok: true}
		}
		return nsVerdict{ok: true, apply: func() { n.data += "w" }}
	case "read":
		return nsVerdict{ok: s.model[op.H] != nil && s.model[op.H].kind == "f"}
	case "readlink":
		return nsVerdict{ok: s.model[op.H] != nil && s.model[op.H].kind == "l"}
	case "readdir", "readdirplus":
		return nsVerdict{ok: s.isDir(op.H)}
	case "lookup":
		return nsVerdict{ok: s.isDir(op.H) && s.model[child] != nil}
	case "createtrunc":
		if !s.isDir(op.H) {
			return fail
		}
		if n := s.model[child]; n != nil {
			if n.kind != "f" {
				return fail
			}
			return nsVerdict{ok: true, apply: func() { n.data = "" }}
		}
		return nsVerdict{ok: true, apply: func() { s.model[child] = &nsNode{kind: "f"} }}
	case "create":
		if !s.isDir(op.H) {
			return fail
		}
		if n := s.model[child]; n != nil {
			return nsVerdict{ok: n.kind == "f"}
		}
		return nsVerdict{ok: true, apply: func() { s.model[child] = &nsNode{kind: "f"} }}
	case "mkdir":
		if !s.isDir(op.H) || s.model[child] != nil {
			return fail
		}
		return nsVerdict{ok: true, apply: func() { s.model[child] = &nsNode{kind: "d"} }}
	case "symlink":
		if !s.isDir(op.H) || s.model[child] != nil {
			return fail
		}
		return nsVerdict{ok: true, apply: func() { s.model[child] = &nsNode{kind: "l", target: op.Target} }}
	case "remove":
		n := s.model[child]
		if !s.isDir(op.H) || n == nil {
			return fail
		}
		if n.kind == "d" {
			if len(s.children(child)) > 0 {
				return fail
			}
			return nsVerdict{either: true, apply: func() { delete(s.model, child) }} // RFC 1813 3.3.12 allows both
		}
		return nsVerdict{ok: true, apply: func() { delete(s.model, child) }}
	case "rmdir":
		n := s.model[child]
		if !s.isDir(op.H) || n == nil || n.kind != "d" || len(s.children(child)) > 0 {
			return fail
		}
		return nsVerdict{ok: true, apply: func() { delete(s.model, child) }}
	case "rename":
		src, dst := pjoin(op.H, op.Name), pjoin(op.H2, op.Name2)
		sn := s.model[src]
		if !s.isDir(op.H) || !s.isDir(op.H2) || sn == nil {
			return fail
		}
		if src == dst {
			return nsVerdict{ok: true}
		}
		if strings.HasPrefix(dst, src+"/") {
			return fail
		}
		move := func() {
			moved := map[string]*nsNode{}
			for _, q := range s.subtree(dst) {
				delete(s.model, q)
			}
			for _, q := range s.subtree(src) {
				moved[dst+strings.TrimPrefix(q, src)] = s.model[q]
				delete(s.model, q)
			}
			for q, n := range moved {
				s.model[q] = n
			}
		}
		dn := s.model[dst]
		if dn == nil {
			return nsVerdict{ok: true, apply: move}
		}
		// onto an existing name: POSIX replaces compatible objects, the backend may refuse
		compatible := (sn.kind == "d") == (dn.kind == "d") && !(dn.kind == "d" && len(s.children(dst)) > 0)
		if !compatible {
			return fail
		}
		return nsVerdict{either: true, apply: move}
	case "setmode", "setsize", "setowner":
		n := s.model[op.H]
		if n == nil {
			return fail
		}
		if op.Kind == "setsize" {
			if n.kind != "f" && n.kind != "l" {
				return nsVerdict{either: true}
			}
			return nsVerdict{either: true, apply: func() {
				if n.kind == "f" {
					d := n.data + "\x00"
					n.data = d[:1]
				}
			}}
		}
		return nsVerdict{either: true}
	case "advance":
		return nsVerdict{ok: true}
	}
	return fail
}

type nsReply struct {
	status  uint32
	names   []string
	link    string
	fh      uint64
	hasFH   bool
	attrs   map[string]*wire.Fattr // path -> attributes carried for it
	entries map[string]uint64      // entry name -> fileid
	err     string
}

func (side *nsSide) handleFor(p string) uint64 {
	if h, ok := side.handles[p]; ok {
		return h
	}
	return 0xdead0000
}

func (side *nsSide) do(op nsOp) nsReply {
	e := side.e
	side.issued = map[string]bool{}
	r := nsReply{attrs: map[string]*wire.Fattr{}, entries: map[string]uint64{}}
	var a wire.Enc
	var proc uint32
	h := side.handleFor(op.H)
	child := pjoin(op.H, op.Name)
	switch op.Kind {
	case "advance":
		vtime.Advance(2 * time.Hour)
		return r
	case "getattr":
		proc = wire.GETATTR
		a.FH(h)
	case "access":
		proc = wire.ACCESS
		a.FH(h).U32(0x3f)
	case "read":
		proc = wire.READ
		a.FH(h).U64(0).U32(16)
	case "readlink":
		proc = wire.READLINK
		a.FH(h)
	case "readdir":
		proc = wire.READDIR
		a.FH(h).U64(0).Raw(make([]byte, 8)).U32(8192)
	case "readdirplus":
		proc = wire.READDIRPLUS
		a.FH(h).U64(0).Raw(make([]byte, 8)).U32(8192).U32(32768)
	case "lookup":
		proc = wire.LOOKUP
		a.FH(h).Str(op.Name)
	case "create":
		proc = wire.CREATE
		a.FH(h).Str(op.Name).U32(0).Sattr(wire.Sattr{})
	case "createtrunc":
		proc = wire.CREATE
		a.FH(h).Str(op.Name).U32(0).Sattr(wire.Sattr{Size: wire.U64p(0)})
	case "mkdir":
		proc = wire.MKDIR
		a.FH(h).Str(op.Name).Sattr(wire.Sattr{})
	case "symlink":
		proc = wire.SYMLINK
		a.FH(h).Str(op.Name).Sattr(wire.Sattr{}).Str(op.Target)
	case "remove":
		proc = wire.REMOVE
		a.FH(h).Str(op.Name)
	case "rmdir":
		proc = wire.RMDIR
		a.FH(h).Str(op.Name)
	case "rename":
		proc = wire.RENAME
		a.FH(h).Str(op.Name).FH(side.handleFor(op.H2)).Str(op.Name2)
	case "setmode":
		proc = wire.SETATTR
		a.FH(h).Sattr(wire.Sattr{Mode: wire.U32p(op.Mode)}).U32(0)
	case "setsize":
		proc = wire.SETATTR
		a.FH(h).Sattr(wire.Sattr{Size: wire.U64p(op.Size)}).U32(0)
	case "setowner":
		proc = wire.SETATTR
		a.FH(h).Sattr(wire.Sattr{UID: wire.U32p(7), GID: wire.U32p(8)}).U32(0)
	case "fsstat":
		proc = wire.FSSTAT
		a.FH(h)
	case "fsinfo":
		proc = wire.FSINFO
		a.FH(h)
	case "pathconf":
		proc = wire.PATHCONF
		a.FH(h)
	case "commit":
		proc = wire.COMMIT
		a.FH(h).U64(0).U32(0)
	case "write": // append one byte at the current end of the file
		proc = wire.WRITE
		off := uint64(0)
		if fi, err := e.fs.Inner().Lstat(op.H); err == nil {
			off = uint64(fi.Size())
		}
		a.FH(h).U64(off).U32(1).U32(2).Opaque([]byte("w"))
	}
	res, rp, err := e.nfsCall(proc, a.B)
	if err != nil || res == nil {
		r.err = fmt.Sprintf("%v (denied=%v)", err, rp != nil && rp.Denied)
		return r
	}
	r.status = res.Status
	put := func(p string, f *wire.Fattr) {
		if f != nil {
			r.attrs[p] = f
		}
	}
	switch op.Kind {
	case "getattr", "access", "read", "readlink", "fsstat", "fsinfo", "pathconf":
		put(op.H, res.Attr)
		r.link = res.Link
	case "write", "commit":
		if res.Wcc != nil {
			put(op.H, res.Wcc.After)
		}
	case "lookup":
		put(child, res.Attr)
		put(op.H, res.DirAttr)
	case "create", "createtrunc", "mkdir", "symlink":
		put(child, res.Attr)
		if res.Wcc != nil {
			put(op.H, res.Wcc.After)
		}
	case "remove", "rmdir":
		if res.Wcc != nil {
			put(op.H, res.Wcc.After)
		}
	case "rename":
		if res.Wcc != nil {
			put(op.H, res.Wcc.After)
		}
		if res.Wcc2 != nil {
			put(op.H2, res.Wcc2.After)
		}
	case "setmode", "setsize", "setowner":
		if res.Wcc != nil {
			put(op.H, res.Wcc.After)
		}
	case "readdir", "readdirplus":
		put(op.H, res.Attr)
		for _, en := range res.Entries {
			r.names = append(r.names, en.Name)
			r.entries[en.Name] = en.Fileid
			if en.Attr != nil {
				put(pjoin(op.H, en.Name), en.Attr)
			}
			if en.FH != nil && res.Status == 0 {
				if v, ok := wire.FHVal(en.FH); ok {
					side.handles[pjoin(op.H, en.Name)] = v
					side.issued[pjoin(op.H, en.Name)] = true
				}
			}
		}
		sort.Strings(r.names)
	}
	if res.Status == 0 && res.FH != nil {
		if v, ok := wire.FHVal(res.FH); ok {
			r.fh, r.hasFH = v, true
			side.handles[child] = v
			side.issued[child] = true
		}
	}
	return r
}

func nsFtype(kind string) uint32 {
	switch kind {
	case "d":
		return 2
	case "l":
		return 5
	}
	return 1
}

func (s *nsState) apply(op nsOp, check bool, hist []nsOp) {
	cs := func() nsCase { return nsCase{Cfg: s.cfg, Hist: append(append([]nsOp(nil), hist...), op)} }
	bad := func(sig, msg string) {
		if check {
			s.c.violation(s.prop+"|"+sig, msg, cs())
		}
	}
	v := s.expect(op)
	// A handle whose object has since been removed, renamed away or replaced names no
	// object the tree model knows: POSIX defines no outcome for it (STALE, an error that fits
	// the original object's type, or service of the object now at the path are all seen in
	// NFS servers). The status of such a request is latitude; its effects are still judged.
	dangling := func(h string) bool {
		if h == "" || h == "/" {
			return false
		}
		n := s.model[h]
		return n == nil || n.id != s.objAt[h]
	}
	dang := dangling(op.H) || dangling(op.H2)
	if dang {
		// neither success nor failure is judged; a success may have any effect the path-based
		// server gives it (the model is resynchronised from the backend below, silently)
		v.ok, v.either = false, true
	}
	before := nsBackendDump(s.main.e.fs)
	// fileids known before the request, for stability checks (C04)
	listedBefore := false
	if s.prop == "C04" && check && strings.HasPrefix(op.Kind, "set") {
		if n := s.model[op.H]; n != nil && n.kind == "d" {
			listedBefore = s.main.do(nsOp{Kind: "readdir", H: op.H}).status == 0
		}
	}
	r := s.main.do(op)
	var rt nsReply
	if s.twin != nil {
		rt = s.twin.do(op)
	}
	if op.Kind == "advance" {
		return
	}
	if r.err != "" {
		bad("request-not-answered|op="+op.Kind, r.err)
		return
	}
	okReply := r.status == 0
	if check {
		s.c.res.Evaluations++
		s.c.outcome(op.Kind + ":" + wire.StatName(r.status))
	}
	after := nsBackendDump(s.main.e.fs)
	// model transition
	applied := false
	if okReply && v.apply != nil && (v.ok || v.either) {
		v.apply()
		applied = true
	}
	_ = applied
	defer func() {
		for _, n := range s.model {
			if n.id == 0 {
				s.nextID++
				n.id = s.nextID
			}
		}
		for p := range s.main.issued {
			if n := s.model[p]; n != nil {
				s.objAt[p] = n.id
			}
		}
	}()
	if s.prop == "C02" {
		switch {
		case okReply && !v.ok && !v.either:
			bad(fmt.Sprintf("succeeds-where-model-fails|op=%s", op.Kind), fmt.Sprintf("%+v replied NFS3_OK; in the tree model it must fail. model:\n%s", op, s.modelDump()))
		case !okReply && v.ok:
			bad(fmt.Sprintf("fails-where-model-succeeds|op=%s|status=%s|cfg=%s", op.Kind, wire.StatName(r.status), s.cfg.Name),
				fmt.Sprintf("%+v replied %s; in the tree model it succeeds. model:\n%sbackend:\n%s", op, wire.StatName(r.status), s.modelDump(), after))
		}
		if !okReply && after != before {
			bad(fmt.Sprintf("failed-request-changes-tree|op=%s|status=%s", op.Kind, wire.StatName(r.status)),
				fmt.Sprintf("%+v replied %s but the backend tree changed:\nbefore:\n%safter:\n%s", op, wire.StatName(r.status), before, after))
		}
		if md := s.modelDump(); md != after {
			if !dang {
				bad(fmt.Sprintf("backend-tree-differs-from-model|op=%s|replied=%s", op.Kind, wire.StatName(r.status)),
					fmt.Sprintf("after %+v (%s):\nmodel:\n%sbackend:\n%s", op, wire.StatName(r.status), md, after))
			}
			// continue from the backend's tree
			s.model = map[string]*nsNode{}
			for _, n := range s.main.e.fs.Dump() {
				s.model[n.Path] = &nsNode{kind: n.Kind, data: n.Data, target: n.Target}
			}
		}
		if okReply {
			switch op.Kind {
			case "readdir", "readdirplus":
				want := s.children(op.H)
				if strings.Join(r.names, ",") != strings.Join(want, ",") {
					bad(fmt.Sprintf("listing-differs-from-tree|op=%s|cfg=%s", op.Kind, s.cfg.Name), fmt.Sprintf("%s(%s) lists %v, the tree holds %v", op.Kind, op.H, r.names, want))
				}
			case "readlink":
				if n := s.model[op.H]; n != nil && r.link != n.target {
					bad("readlink-target-differs", fmt.Sprintf("READLINK(%s)=%q, tree says %q", op.H, r.link, n.target))
				}
			}
		}
		// cache transparency: same reply as the uncached twin
		if s.twin != nil && rt.err == "" {
			if rt.status != r.status {
				bad(fmt.Sprintf("caching-changes-reply|op=%s|cached=%s|uncached=%s|cfg=%s", op.Kind, wire.StatName(r.status), wire.StatName(rt.status), s.cfg.Name),
					fmt.Sprintf("%+v: %s with caches (%s), %s without", op, wire.StatName(r.status), s.cfg.Name, wire.StatName(rt.status)))
			} else if strings.Join(r.names, ",") != strings.Join(rt.names, ",") || r.link != rt.link {
				bad(fmt.Sprintf("caching-changes-reply-content|op=%s|cfg=%s", op.Kind, s.cfg.Name), fmt.Sprintf("%+v: lists %v / link %q with caches, %v / %q without", op, r.names, r.link, rt.names, rt.link))
			} else {
				for p, fa := range r.attrs {
					if fb := rt.attrs[p]; fb != nil && (fa.Type != fb.Type || fa.Size != fb.Size || fa.Fileid != fb.Fileid || fa.Mode != fb.Mode) {
						bad(fmt.Sprintf("caching-changes-attributes|op=%s|cfg=%s", op.Kind, s.cfg.Name),
							fmt.Sprintf("%+v: attributes of %s with caches type=%d size=%d mode=%o fileid=%d, without type=%d size=%d mode=%o fileid=%d", op, p, fa.Type, fa.Size, fa.Mode, fa.Fileid, fb.Type, fb.Size, fb.Mode, fb.Fileid))
					}
				}
			}
		}
	} else { // C04
		// resync the model with the backend (C04 does not judge the tree)
		s.model = map[string]*nsNode{}
		for _, n := range s.main.e.fs.Dump() {
			s.model[n.Path] = &nsNode{kind: n.Kind, data: n.Data, target: n.Target}
		}
		if okReply {
			for p, fa := range r.attrs {
				fi, err := s.main.e.fs.Inner().Lstat(p)
				if err != nil {
					continue // the object is gone (e.g. removed by this request)
				}
				wantType := uint32(1)
				switch {
				case fi.Mode()&os.ModeSymlink != 0:
					wantType = 5
				case fi.IsDir():
					wantType = 2
				}
				where := op.Kind
				if p != op.H {
					where += "-other"
				}
				if fa.Type != wantType {
					bad(fmt.Sprintf("reported-type-differs-from-lstat|in=%s|reported=%d|lstat=%d", where, fa.Type, wantType),
						fmt.Sprintf("%+v reports ftype %d for %s, lstat says %d", op, fa.Type, p, wantType))
				}
				if wantType == 1 && fa.Size != uint64(fi.Size()) {
					bad(fmt.Sprintf("reported-size-differs-from-lstat|in=%s", where), fmt.Sprintf("%+v reports size %d for %s, lstat says %d", op, fa.Size, p, fi.Size()))
				}
				if fa.Mode&0o777 != uint32(fi.Mode().Perm()) {
					bad(fmt.Sprintf("reported-mode-differs-from-lstat|in=%s", where), fmt.Sprintf("%+v reports mode %o for %s, lstat says %o", op, fa.Mode, p, fi.Mode().Perm()))
				}
				// fileid: one per path while the path is unchanged
				if prev, ok := s.fileids()[p]; ok && prev != fa.Fileid {
					bad(fmt.Sprintf("fileid-changes-for-unchanged-path|in=%s", where), fmt.Sprintf("%+v reports fileid %d for %s, earlier replies said %d", op, fa.Fileid, p, prev))
				} else {
					s.fileids()[p] = fa.Fileid
				}
			}
			for n, fid := range r.entries {
				p := pjoin(op.H, n)
				if prev, ok := s.fileids()[p]; ok && prev != fid {
					bad(fmt.Sprintf("entry-fileid-differs|in=%s", op.Kind), fmt.Sprintf("%s lists %s with fileid %d, other replies say %d", op.Kind, p, fid, prev))
				} else {
					s.fileids()[p] = fid
				}
			}
		}
		// a handle that worked before a SETATTR must still work after it
		if strings.HasPrefix(op.Kind, "set") && okReply {
			g := s.main.do(nsOp{Kind: "getattr", H: op.H})
			if g.status != 0 {
				bad("handle-unusable-after-setattr|probe=getattr|status="+wire.StatName(g.status), fmt.Sprintf("after %+v GETATTR on the same handle replies %s", op, wire.StatName(g.status)))
			}
			if n := s.model[op.H]; n != nil && n.kind == "d" && listedBefore {
				l := s.main.do(nsOp{Kind: "readdir", H: op.H})
				noRead := false
				if fi, err := s.main.e.fs.Inner().Lstat(op.H); err == nil {
					noRead = fi.Mode().Perm()&0o444 == 0 && (l.status == 1 || l.status == 13)
				}
				if l.status != 0 && !noRead { // a mode without read bits legitimately denies listing
					bad("handle-unusable-after-setattr|probe=readdir|status="+wire.StatName(l.status), fmt.Sprintf("after %+v READDIR through the same directory handle replies %s", op, wire.StatName(l.status)))
				}
			}
		}
	}
	// objects that vanished or changed path invalidate remembered fileids
	for p := range s.fileids() {
		if s.model[p] == nil {
			delete(s.fileids(), p)
		}
	}
	if before != after {
		// a mutation: forget fileids of everything whose path was touched
		for p := range s.fileids() {
			if _, ok := dumpFind(before, p); !ok {
				delete(s.fileids(), p)
			}
		}
	}
	// the client now holds every handle the server issued
	for p := range s.main.handles {
		found := false
		for _, h := range s.held {
			found = found || h == p
		}
		if !found {
			s.held = append(s.held, p)
		}
	}
	sort.Strings(s.held[1:])
}

var nsFileids = map[*nsState]map[string]uint64{}

func (s *nsState) fileids() map[string]uint64 {
	m, ok := nsFileids[s]
	if !ok {
		m = map[string]uint64{}
		nsFileids[s] = m
	}
	return m
}

func nsRun(c *vCtx, prop string, cfgs []nsCfg, depth func(nsCfg) int) {
	for i, cfg := range cfgs {
		_ = i
		d := depth(cfg)
		eng := &vHist[*nsState, nsOp]{
			New:     func() *nsState { return nsNew(cfg, prop, c) },
			Apply:   func(s *nsState, op nsOp, check bool, hist []nsOp) { s.apply(op, check, hist) },
			Enabled: func(s *nsState) []nsOp { return s.enabled() },
			Key:     func(s *nsState) string { return s.key() },
			Close:   func(s *nsState) { delete(nsFileids, s); s.close() },
		}
		st, tr, _ := eng.run(c, d)
		c.res.States += st
		c.res.Transitions += tr
		c.res.Traces += tr
		c.sample(map[string]any{"config": cfg, "depth": d, "states": st, "transitions": tr})
	}
}

func nsReplay(c *vCtx, prop string, raw json.RawMessage) {
	var cs nsCase
	vMust(json.Unmarshal(raw, &cs), "case")
	s := nsNew(cs.Cfg, prop, c)
	defer s.close()
	for i, op := range cs.Hist {
		s.apply(op, i == len(cs.Hist)-1, cs.Hist[:i])
	}
}

func nsConfigs() []nsCfg {
	var out []nsCfg
	for _, ttl := range []time.Duration{1, time.Hour} {
		for _, dc := range []bool{false, true} {
			for _, nc := range []bool{false, true} {
				name := fmt.Sprintf("ttl=%v,dir=%v,neg=%v", ttl, dc, nc)
				out = append(out, nsCfg{Name: name, TTL: ttl, DirC: dc, NegC: nc})
			}
		}
	}
	return out
}

func init() {
	vRegister(&vCheck{
		id: "C02", level: "model_checking", flavour: "vtime",
		shards: func(string) int { return 16 },
		rule: "breadth-first search over request histories of LOOKUP, CREATE, MKDIR, SYMLINK (targets a, b/x), REMOVE, RMDIR, RENAME (all pairs of held directory handles and names), READDIR, READDIRPLUS, GETATTR, READLINK over names {a,b}, issued through every handle the model client holds (including handles of objects since removed or renamed), on the real server in lockstep with an uncached twin; configurations: attribute TTL {1ns,1h} x directory cache {off,on} x negative caching {off,on}, from an empty export, from a tree with a directory, a file and a symlink to a directory, from that tree with the client already holding a handle for every object, and (negative caching on) from a state reached by requests in which a directory was created, probed for two missing names and removed again, plus a clock jump beyond every TTL as an operation; depth 2 for every configuration, 3 for the uncached and the fully cached one from the empty export and for every cached configuration from the all-handles-held start and the probed-and-removed-directory start (thorough: one more everywhere); states deduplicated on (model tree, backend tree, handle tables, per-handle attributes, attribute/negative/directory cache contents with validity). Oracles after every transition: success/failure agrees with the POSIX-like tree model (with measured latitude), the backend tree equals the model tree and is unchanged by a failed request, listings and link targets equal the tree, and the reply equals the uncached twin's reply (status, names, targets, type/size/mode/fileid).",
		assumptions: []string{"handles are path-based: a request through a handle is judged against the object now at the path the handle was issued for",
			"latitude: REMOVE of an empty directory may succeed or fail; RENAME onto an existing compatible object may replace it or fail (the backend refuses)"},
		run: func(c *vCtx) {
			var cfgs []nsCfg
			for _, ini := range []string{"empty", "rich", "held", "afterneg"} {
				for _, cf := range nsConfigs() {
					if ini == "afterneg" && !cf.NegC {
						continue // this start state is about negative entries left below a removed directory
					}
					cf.Initial = ini
					cfgs = append(cfgs, cf)
				}
			}
			nsRun(c, "C02", cfgs, func(cf nsCfg) int {
				edge := (cf.TTL == 1 && !cf.DirC && !cf.NegC) || (cf.TTL == time.Hour && cf.DirC && cf.NegC)
				d := 2
				if c.thorough() {
					d = 3
				}
				if edge && cf.Initial == "empty" {
					d++
				}
				if (cf.Initial == "held" || cf.Initial == "afterneg") && (cf.DirC || cf.NegC || cf.TTL > 1) {
					d++ // the client starts with every handle: cache effects of cross-directory operations are 3 requests away
				}
				return d
			})
		},
		replay: func(c *vCtx, raw json.RawMessage) { nsReplay(c, "C02", raw) },
	})
	vRegister(&vCheck{
		id: "C04", level: "model_checking", flavour: "vtime",
		shards: func(string) int { return 16 },
		rule: "breadth-first search over request histories of the C02 alphabet plus CREATE with size 0 in its attributes (truncating an existing file), ACCESS, READ, WRITE (one byte appended), COMMIT, FSSTAT, FSINFO, PATHCONF, SETATTR(mode in {0,0644,0755,07777,0644|1<<27,0755|1<<31,0x4000|0755}), SETATTR(size), SETATTR(uid,gid) through every held handle, from a tree containing a directory, a regular file and a symlink to a directory, and from an empty export, with attribute TTL {1ns,1h} and directory cache {off,on}; depth 3 (thorough 4); every fattr3 / post-op attribute / wcc after-attribute / READDIRPLUS entry carried by a reply is harvested and compared with the backend's lstat of that path (file type, size of regular files, permission bits) and with the fileid every other reply gave for the same unchanged path; after a successful SETATTR the same handle must still answer GETATTR (and READDIR for a directory).",
		assumptions: []string{"ground truth is lstat on the recording backend at the time of the reply", "sizes are compared for regular files only"},
		run: func(c *vCtx) {
			var cfgs []nsCfg
			for _, ini := range []string{"rich", "empty"} {
				for _, ttl := range []time.Duration{1, time.Hour} {
					for _, dc := range []bool{false, true} {
						cfgs = append(cfgs, nsCfg{Name: fmt.Sprintf("ttl=%v,dir=%v", ttl, dc), TTL: ttl, DirC: dc, Initial: ini})
					}
				}
			}
			nsRun(c, "C04", cfgs, func(cf nsCfg) int {
				if c.thorough() {
					return 4
				}
				return 3
			})
		},
		replay: func(c *vCtx, raw json.RawMessage) { nsReplay(c, "C04", raw) },
	})
}
