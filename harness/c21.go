package absnfs

// C21 — attribute and directory caches behave as bounded TTL LRU maps.
// Explicit-state search over operation / clock-advance sequences on the real
// AttrCache and DirCache (virtual clock) against a reference LRU/TTL model;
// the implementation's internal map and LRU list are read in-package after
// every transition.

import (
	"encoding/json"
	"fmt"
	"os"
	"strings"
	"time"

	"github.com/absfs/absnfs/internal/verif/vtime"
)

type lcOp struct {
	Kind string `json:"kind"` // put putneg get inv invnegdir resize ttl neg clear adv
	Key  string `json:"key,omitempty"`
	N    int64  `json:"n,omitempty"`
	On   bool   `json:"on,omitempty"`
}

type lcEntry struct {
	key     string
	val     int64
	neg     bool
	expire  int64 // ns
	n       int   // dir cache: number of entries
	ttlSeen int64 // ttl in force when stored
}

type lcModel struct {
	lru     []*lcEntry // front = most recently used
	cap     int
	ttl     int64
	negTTL  int64
	negOn   bool
	unsure  bool // an eviction happened while an expired entry was present: LRU order no longer judged
	ttlEdge map[string]bool
}

func (m *lcModel) find(k string) int {
	for i, e := range m.lru {
		if e.key == k {
			return i
		}
	}
	return -1
}

func (m *lcModel) touch(i int) {
	e := m.lru[i]
	copy(m.lru[1:i+1], m.lru[:i])
	m.lru[0] = e
}

func (m *lcModel) remove(i int) { m.lru = append(m.lru[:i], m.lru[i+1:]...) }

func (m *lcModel) insert(e *lcEntry, now int64) {
	if i := m.find(e.key); i >= 0 {
		m.lru[i] = e
		m.touch(i)
		return
	}
	if len(m.lru) >= m.cap && len(m.lru) > 0 {
		for _, x := range m.lru {
			if x.expire <= now {
				m.unsure = true
			}
		}
		m.lru = m.lru[:len(m.lru)-1]
	}
	m.lru = append([]*lcEntry{e}, m.lru...)
}

type lcState struct {
	which string // attr | dir
	ac    *AttrCache
	dc    *DirCache
	m     *lcModel
	now   int64
	step  int64
	c     *vCtx
}

const lcTTL = int64(10 * time.Second)
const lcNegTTL = int64(4 * time.Second)

func lcNew(which string, capacity int, c *vCtx) *lcState {
	vtime.Set(0)
	s := &lcState{which: which, c: c, m: &lcModel{cap: capacity, ttl: lcTTL, negTTL: lcNegTTL, negOn: true}}
	if which == "attr" {
		s.ac = NewAttrCache(time.Duration(lcTTL), capacity)
		s.ac.ConfigureNegativeCaching(true, time.Duration(lcNegTTL))
	} else {
		s.dc = NewDirCache(time.Duration(lcTTL), capacity, 2)
	}
	return s
}

type lcFileInfo struct{ name string }

func (f lcFileInfo) Name() string       { return f.name }
func (f lcFileInfo) Size() int64        { return 0 }
func (f lcFileInfo) Mode() os.FileMode  { return 0o644 }
func (f lcFileInfo) ModTime() time.Time { return time.Time{} }
func (f lcFileInfo) IsDir() bool        { return false }
func (f lcFileInfo) Sys() any           { return nil }

func lcChild(path, dir string) bool {
	if path == dir || path == "/" {
		return false
	}
	prefix := dir
	if dir != "/" {
		prefix = dir + "/"
	}
	if !strings.HasPrefix(path, prefix) {
		return false
	}
	rest := path[len(prefix):]
	return rest != "" && !strings.Contains(rest, "/")
}

// implKeys returns the implementation's LRU order (front first) and checks
// that the map and the list agree.
func (s *lcState) implKeys() ([]string, string) {
	var order []string
	problem := ""
	if s.which == "attr" {
		for e := s.ac.accessList.Front(); e != nil; e = e.Next() {
			order = append(order, e.Value.(string))
		}
		if len(order) != len(s.ac.cache) {
			problem = fmt.Sprintf("LRU list has %d elements, map has %d", len(order), len(s.ac.cache))
		}
		for _, k := range order {
			ce, ok := s.ac.cache[k]
			if !ok {
				problem = "LRU list names " + k + " which is not in the map"
			} else if ce.listElement == nil || ce.listElement.Value.(string) != k {
				problem = "map entry " + k + " does not point at its own list element"
			}
		}
	} else {
		for e := s.dc.accessList.Front(); e != nil; e = e.Next() {
			order = append(order, e.Value.(string))
		}
		if len(order) != len(s.dc.entries) {
			problem = fmt.Sprintf("LRU list has %d elements, map has %d", len(order), len(s.dc.entries))
		}
		for _, k := range order {
			if _, ok := s.dc.entries[k]; !ok {
				problem = "LRU list names " + k + " which is not in the map"
			}
		}
	}
	return order, problem
}

func (s *lcState) key() string {
	var sb strings.Builder
	fmt.Fprintf(&sb, "%s|cap=%d|ttl=%d|neg=%v/%d|unsure=%v|", s.which, s.m.cap, s.m.ttl, s.m.negOn, s.m.negTTL, s.m.unsure)
	for _, e := range s.m.lru {
		fmt.Fprintf(&sb, "%s:%d:%v:%d:%d,", e.key, e.val, e.neg, e.expire-s.now, e.n)
	}
	order, _ := s.implKeys()
	sb.WriteString("|" + strings.Join(order, ","))
	return sb.String()
}

func (s *lcState) apply(op lcOp, check bool, hist []lcOp) {
	cs := func() any {
		return map[string]any{"cache": s.which, "capacity": s.m.cap, "hist": append(append([]lcOp(nil), hist...), op)}
	}
	bad := func(sig, msg string) {
		if check {
			s.c.violation("C21|"+sig+"|cache="+s.which, msg, cs())
		}
	}
	s.step++
	m := s.m
	vtime.Set(time.Duration(s.now))
	switch op.Kind {
	case "adv":
		s.now += op.N
		vtime.Set(time.Duration(s.now))
	case "put":
		val := s.step*10 + int64(len(hist))
		if s.which == "attr" {
			a := &NFSAttrs{Size: val, Mode: 0o644, FileId: uint64(val)}
			s.ac.Put(op.Key, a)
			a.Size, a.FileId = -1, 0 // the caller's value is mutated afterwards: must not leak into the cache
			m.insert(&lcEntry{key: op.Key, val: val, expire: s.now + m.ttl, ttlSeen: m.ttl}, s.now)
		} else {
			n := int(op.N)
			ents := make([]os.FileInfo, n)
			for i := range ents {
				ents[i] = lcFileInfo{fmt.Sprintf("e%d-%d", val, i)}
			}
			s.dc.Put(op.Key, ents)
			for i := range ents {
				ents[i] = lcFileInfo{"mutated"}
			}
			if n <= 2 {
				m.insert(&lcEntry{key: op.Key, val: val, n: n, expire: s.now + m.ttl, ttlSeen: m.ttl}, s.now)
			}
		}
	case "putneg":
		s.ac.PutNegative(op.Key)
		if m.negOn {
			m.insert(&lcEntry{key: op.Key, neg: true, expire: s.now + m.negTTL, ttlSeen: m.negTTL}, s.now)
		}
	case "get":
		i := m.find(op.Key)
		var want *lcEntry
		edge := false
		if i >= 0 {
			e := m.lru[i]
			switch {
			case s.now < e.expire:
				want = e
			case s.now == e.expire:
				edge = true // at exact equality either answer is allowed
				want = e
			}
		}
		var gotVal int64
		var gotNeg, found bool
		gotN := -1
		if s.which == "attr" {
			a, ok := s.ac.Get(op.Key)
			found = ok
			if ok && a == nil {
				gotNeg = true
			} else if ok {
				gotVal = a.Size
				a.Size = -7 // mutate the returned copy
			}
		} else {
			ents, ok := s.dc.Get(op.Key)
			found = ok
			if ok {
				gotN = len(ents)
				if len(ents) > 0 {
					var v, j int64
					fmt.Sscanf(ents[0].Name(), "e%d-%d", &v, &j)
					gotVal = v
					ents[0] = lcFileInfo{"mutated-by-reader"}
				} else if i >= 0 {
					gotVal = m.lru[i].val
				}
			}
		}
		if check {
			s.c.res.Evaluations++
			switch {
			case found && want == nil:
				why := "never-stored-or-removed"
				if i >= 0 {
					why = "expired"
				}
				bad("get-returns-entry-that-must-be-gone|why="+why, fmt.Sprintf("Get(%s) at t=%dns returned a value (val=%d neg=%v) but the model holds nothing valid for it", op.Key, s.now, gotVal, gotNeg))
			case found && want != nil && want.neg && !m.negOn:
				bad("negative-entry-served-while-negative-caching-disabled", fmt.Sprintf("Get(%s) reports a negative hit after ConfigureNegativeCaching(false)", op.Key))
			case found && want != nil && (gotNeg != want.neg || (!gotNeg && gotVal != want.val) || (s.which == "dir" && gotN != want.n)):
				bad("get-returns-superseded-or-foreign-value", fmt.Sprintf("Get(%s) returned val=%d neg=%v n=%d, most recent stored value is val=%d neg=%v n=%d", op.Key, gotVal, gotNeg, gotN, want.val, want.neg, want.n))
			case !found && want != nil && !edge && !m.unsure && !(want.neg && !m.negOn):
				bad("get-misses-live-entry", fmt.Sprintf("Get(%s) at t=%dns found nothing although val=%d (expires %dns) was stored and neither expired, invalidated nor evicted", op.Key, s.now, want.val, want.expire))
			}
			s.c.outcome(fmt.Sprintf("get:found=%v", found))
		}
		if i >= 0 {
			if found {
				m.touch(i)
			} else if s.now >= m.lru[i].expire {
				// an expired entry may be dropped by the lookup
				order, _ := s.implKeys()
				present := false
				for _, k := range order {
					present = present || k == op.Key
				}
				if !present {
					m.remove(i)
				}
			}
		}
	case "inv":
		if s.which == "attr" {
			s.ac.Invalidate(op.Key)
		} else {
			s.dc.Invalidate(op.Key)
		}
		if i := m.find(op.Key); i >= 0 {
			m.remove(i)
		}
	case "invnegdir":
		s.ac.InvalidateNegativeInDir(op.Key)
		var keep []*lcEntry
		for _, e := range m.lru {
			if e.neg && lcChild(e.key, op.Key) {
				continue
			}
			keep = append(keep, e)
		}
		m.lru = keep
	case "resize":
		if s.which == "attr" {
			s.ac.Resize(int(op.N))
		} else {
			s.dc.Resize(int(op.N))
		}
		m.cap = int(op.N)
		for len(m.lru) > m.cap {
			for _, x := range m.lru {
				if x.expire <= s.now {
					m.unsure = true
				}
			}
			m.lru = m.lru[:len(m.lru)-1]
		}
	case "ttl":
		if s.which == "attr" {
			s.ac.UpdateTTL(time.Duration(op.N))
		} else {
			s.dc.UpdateTTL(time.Duration(op.N))
		}
		m.ttl = op.N
	case "neg":
		s.ac.ConfigureNegativeCaching(op.On, time.Duration(lcNegTTL))
		m.negOn = op.On
		if !op.On {
			// negative entries exist only while negative caching is enabled; an implementation
			// may drop them at once or merely stop serving them (Get is judged either way)
			order, _ := s.implKeys()
			still := map[string]bool{}
			for _, k := range order {
				still[k] = true
			}
			var keep []*lcEntry
			for _, e := range m.lru {
				if e.neg && !still[e.key] {
					continue
				}
				keep = append(keep, e)
			}
			m.lru = keep
		}
	case "clear":
		if s.which == "attr" {
			s.ac.Clear()
		} else {
			s.dc.Clear()
		}
		m.lru = nil
		m.unsure = false
	}
	// structural comparison after every transition
	order, problem := s.implKeys()
	if problem != "" {
		bad("map-and-lru-list-disagree", problem)
	}
	if len(order) > m.cap {
		bad("size-exceeds-capacity", fmt.Sprintf("%d entries with capacity %d after %+v", len(order), m.cap, op))
	}
	if !m.unsure {
		var want []string
		for _, e := range m.lru {
			want = append(want, e.key)
		}
		if strings.Join(order, ",") != strings.Join(want, ",") {
			// entries that are expired in the model may have been dropped by the implementation: not judged
			var wantLive, gotLive []string
			for _, e := range m.lru {
				if e.expire > s.now {
					wantLive = append(wantLive, e.key)
				}
			}
			exp := map[string]bool{}
			for _, e := range m.lru {
				if e.expire <= s.now {
					exp[e.key] = true
				}
			}
			for _, k := range order {
				if !exp[k] {
					gotLive = append(gotLive, k)
				}
			}
			if strings.Join(gotLive, ",") != strings.Join(wantLive, ",") {
				kind := "lru-order-or-content-differs"
				if op.Kind == "invnegdir" {
					kind = "negative-invalidation-scope-differs"
				}
				bad(kind+"|after="+op.Kind, fmt.Sprintf("after %+v the cache holds (MRU first) %v, a strict LRU/TTL map holds %v", op, order, want))
				// continue from the implementation's content
				var nl []*lcEntry
				for _, k := range order {
					if i := m.find(k); i >= 0 {
						nl = append(nl, m.lru[i])
					}
				}
				m.lru = nl
			}
		}
	} else {
		// after an eviction with expired entries present only soundness is judged: resync content
		var nl []*lcEntry
		for _, k := range order {
			if i := m.find(k); i >= 0 {
				nl = append(nl, m.lru[i])
			}
		}
		m.lru = nl
		m.unsure = false
	}
}

func lcOps(which string, thorough bool) []lcOp {
	keys := []string{"/a", "/a/x", "/ab", "/b"}
	if thorough {
		keys = []string{"/", "/a", "/a/x", "/a/x/y", "/ab", "/b"}
	}
	var ops []lcOp
	for _, k := range keys {
		if which == "attr" {
			ops = append(ops, lcOp{Kind: "put", Key: k}, lcOp{Kind: "putneg", Key: k})
		} else {
			ops = append(ops, lcOp{Kind: "put", Key: k, N: 1})
		}
		ops = append(ops, lcOp{Kind: "get", Key: k}, lcOp{Kind: "inv", Key: k})
	}
	if which == "attr" {
		ops = append(ops, lcOp{Kind: "invnegdir", Key: "/"}, lcOp{Kind: "invnegdir", Key: "/a"}, lcOp{Kind: "neg", On: false}, lcOp{Kind: "neg", On: true})
	} else {
		ops = append(ops, lcOp{Kind: "put", Key: "/a", N: 2}, lcOp{Kind: "put", Key: "/a", N: 3}, lcOp{Kind: "put", Key: "/b", N: 0})
	}
	ops = append(ops, lcOp{Kind: "resize", N: 1}, lcOp{Kind: "resize", N: 3}, lcOp{Kind: "ttl", N: int64(3 * time.Second)}, lcOp{Kind: "clear"},
		lcOp{Kind: "adv", N: lcNegTTL - 1}, lcOp{Kind: "adv", N: lcNegTTL + 1}, lcOp{Kind: "adv", N: lcTTL - lcNegTTL}, lcOp{Kind: "adv", N: 1})
	return ops
}

func init() {
	vRegister(&vCheck{
		id: "C21", level: "model_checking", flavour: "vtime", also: []string{"C21.conc"},
		shards: func(string) int { return 16 },
		rule: "breadth-first search over sequences of Put / PutNegative / Get / Invalidate / InvalidateNegativeInDir / Resize{1,3} / UpdateTTL / ConfigureNegativeCaching{on,off} / Clear and clock advances {negTTL-1ns, negTTL+1ns, ttl-negTTL, 1ns} on the real AttrCache (capacity 2) and DirCache (capacity 2, maxDirSize 2, listings of 0..3 entries), keys {/a,/a/x,/ab,/b} (thorough adds / and /a/x/y), depth 4 (thorough 5), states deduplicated on (model entries with relative expiry, LRU order, settings). After every transition the implementation's map and LRU list are read in-package and compared with a reference LRU/TTL model; every Get is compared with the model (most recent unexpired, un-invalidated, un-evicted value or nothing; negative entries only while enabled); values passed to Put and returned by Get are mutated by the harness afterwards (copy isolation).",
		assumptions: []string{"a Get at exactly the expiry instant may answer either way", "after an eviction that happened while an expired entry was present the LRU order is not judged (an implementation may purge expired entries first); soundness clauses are still checked",
			"the sequential clause is decided by the breadth-first search, the concurrent clause by part C21.conc (scheduler)"},
		run: func(c *vCtx) {
			depth := 4
			if c.thorough() {
				depth = 5
			}
			for _, which := range []string{"attr", "dir"} {
				ops := lcOps(which, c.thorough())
				eng := &vHist[*lcState, lcOp]{
					New:     func() *lcState { return lcNew(which, 2, c) },
					Apply:   func(s *lcState, op lcOp, check bool, hist []lcOp) { s.apply(op, check, hist) },
					Enabled: func(s *lcState) []lcOp { return ops },
					Key:     func(s *lcState) string { return s.key() },
				}
				st, tr, _ := eng.run(c, depth)
				c.res.States += st
				c.res.Transitions += tr
				c.res.Traces += tr
				c.sample(map[string]any{"cache": which, "alphabet": len(ops), "depth": depth, "states": st, "transitions": tr})
			}
		},
		replay: func(c *vCtx, raw json.RawMessage) {
			var cs struct {
				Cache    string `json:"cache"`
				Capacity int    `json:"capacity"`
				Hist     []lcOp `json:"hist"`
			}
			vMust(json.Unmarshal(raw, &cs), "case")
			s := lcNew(cs.Cache, 2, c)
			for i, op := range cs.Hist {
				s.apply(op, i == len(cs.Hist)-1, cs.Hist[:i])
			}
		},
	})
}
