package absnfs

// C18.conc — the limiters under concurrency; a part of check C18 run in the sched flavour.

import (
	"encoding/json"
	"time"
)

func init() {
	vRegister(&vCheck{
		id: "C18.conc", level: "model_checking", flavour: "sched",
		shards: func(string) int { return 16 },
		rule: "stateless model checking of the real RateLimiter (source-instrumented, controlled scheduler, virtual clock): three threads call AllowOperation / AllowRequest on limiters whose refill rate is 0 (a bucket is a counter), one thread first lets the clean-up interval elapse so that the periodic clean-up of idle buckets runs inside some thread's call; afterwards the main thread drains what is left. Every choice sequence within D-bound 4 (thorough D-bound 6) is executed. Oracle: the number of admitted calls never exceeds the burst of the binding limiter (per-operation mount burst 2, readdir burst 5, per-IP burst 1; thorough: global with rate 0), no call blocks, no panic.",
		assumptions: []string{"scheduling points are the lock operations of the limiters; plain memory accesses between them are atomic steps"},
		run: func(c *vCtx) {
			vSchedRunBudget(c, "C18", c18ConcScenarios(c.thorough()), []vPlan{{"D", 4}}, []vPlan{{"D", 6}}, 15*time.Minute)
		},
		replay: func(c *vCtx, raw json.RawMessage) { vSchedReplay(c, "C18", c18ConcScenarios(true), raw) },
	})
}
