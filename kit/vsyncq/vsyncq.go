// Package vsyncq is imported under the name sync by statistics-only files in
// the sched flavour: same blocking model as vsync, no preemption points.
package vsyncq

import "github.com/absfs/absnfs/internal/verif/vsync"

type (
	Mutex     = vsync.QMutex
	RWMutex   = vsync.QRWMutex
	WaitGroup = vsync.WaitGroup
	Once      = vsync.Once
	Map       = vsync.Map
	Pool      = vsync.Pool
	Locker    = vsync.Locker
)
