package absnfs

// C14 — every reply is a well-formed RFC 1813 / RFC 1831 reply.
// Product of (program, version, procedure) x argument shapes (well-formed for
// every handle kind and name kind, every byte-prefix, every word replaced by
// 0/1/0xFFFFFFFF) x server states (normal, read-only, policy drain,
// per-operation rate limit exhausted, connection-level rate limit exhausted,
// operation timeouts expired); each reply is decoded by the independent,
// strict wire kit.

import (
	"encoding/binary"
	"encoding/json"
	"fmt"
	"strings"
	"time"

	"github.com/absfs/absnfs/internal/verif/recfs"
	"github.com/absfs/absnfs/internal/verif/wire"
)

type c14Case struct {
	State string `json:"state"`
	Prog  uint32 `json:"prog"`
	Vers  uint32 `json:"vers"`
	Proc  uint32 `json:"proc"`
	Shape string `json:"shape"` // wf:<dirkind>,<objkind>,<name> | prefix:<n> | word:<i>=<v>
	Args  []byte `json:"args"`
}

type c14World struct {
	e                         *vEnv
	root, dir, file, link, nx uint64
}

func c14Setup(state string) *c14World {
	opts := ExportOptions{AttrCacheTimeout: 1, TransferSize: 65536}
	if state == "ratelimited-op" || state == "ratelimited-conn" {
		cfg := RateLimiterConfig{GlobalRequestsPerSecond: 1000000, PerIPRequestsPerSecond: 0, PerIPBurstSize: 0,
			CleanupInterval: time.Hour}
		if state == "ratelimited-op" {
			cfg.PerIPRequestsPerSecond, cfg.PerIPBurstSize = 1000000, 1000000
		}
		opts.EnableRateLimiting = true
		opts.RateLimitConfig = &cfg
	}
	e, err := vNewEnv(opts, func(fs *recfs.FS) {
		vMust(fs.Mkdir("/d", 0o755), "mkdir")
		f, err := fs.Create("/f")
		vMust(err, "create")
		f.Write([]byte("hello world"))
		f.Close()
		f, _ = fs.Create("/d/f")
		f.Close()
		vMust(fs.Symlink("f", "/l"), "symlink")
	})
	vMust(err, "env")
	w := &c14World{e: e, nx: 0xdead0001}
	// obtain handles in-package so that no rate-limit budget is spent
	alloc := func(p string) uint64 {
		n, err := e.nfs.Lookup(p)
		vMust(err, "lookup "+p)
		return e.nfs.fileMap.Allocate(n)
	}
	w.root, w.dir, w.file, w.link = alloc("/"), alloc("/d"), alloc("/f"), alloc("/l")
	switch state {
	case "readonly":
		p := *e.nfs.policy.Load()
		p.ReadOnly = true
		vMust(e.nfs.UpdatePolicyOptions(p), "ro")
	case "ratelimited-op":
		for _, t := range []OperationType{OpTypeReadLarge, OpTypeWriteLarge, OpTypeReaddir, OpTypeMount} {
			for i := 0; i < 100 && e.nfs.rateLimiter.AllowOperation(e.ip, t); i++ {
			}
		}
		e.tick = 0
	case "op-timeout":
		e.nfs.UpdateTuningOptions(func(t *TuningOptions) {
			t.Timeouts.ReadTimeout, t.Timeouts.WriteTimeout, t.Timeouts.LookupTimeout = -1, -1, -1
			t.Timeouts.ReaddirTimeout, t.Timeouts.CreateTimeout, t.Timeouts.RemoveTimeout, t.Timeouts.RenameTimeout = -1, -1, -1, -1
		})
	}
	return w
}

func (w *c14World) handleOf(kind string) uint64 {
	switch kind {
	case "root":
		return w.root
	case "dir":
		return w.dir
	case "file":
		return w.file
	case "link":
		return w.link
	}
	return w.nx
}

// c14Shapes lists the argument shapes for one procedure in terms that do not
// depend on handle values (they are substituted per world).
func c14Shapes(prog, proc uint32, thorough bool) []string {
	var out []string
	if prog == wire.ProgMount {
		out = append(out, "wf:root,file,f")
	} else {
		for _, dk := range []string{"root", "dir", "file", "link", "stale"} {
			for _, ok := range []string{"file", "dir", "link", "stale"} {
				out = append(out, fmt.Sprintf("wf:%s,%s,f", dk, ok))
			}
		}
		for _, nm := range []string{"missing", "..", "a/b", strings.Repeat("n", 256), "", "d", "l"} {
			out = append(out, "wf:root,file,"+nm)
		}
	}
	if prog == wire.ProgNFS && proc == wire.CREATE {
		// every create mode over the existing name, with a size in sattr3 (the resize-on-recreate path)
		out = append(out, "wfcreate:0,size", "wfcreate:1,size", "wfcreate:2", "wfcreate:0,nosize")
	}
	if prog == wire.ProgNFS && proc == wire.RENAME {
		// the two directory slots filled with different handle kinds (the wf: shapes use one handle for both)
		for _, from := range []string{"root", "dir", "file", "link", "stale"} {
			for _, to := range []string{"root", "dir", "file", "link", "stale"} {
				if from != to {
					out = append(out, fmt.Sprintf("wfrename:%s,%s", from, to))
				}
			}
		}
	}
	if prog == wire.ProgNFS && proc == wire.SETATTR {
		out = append(out, "wfsetsize:file")
		// sattrguard3: obj_ctime that cannot match (NFS3ERR_NOT_SYNC path) and, for the stale handle, the same
		out = append(out, "wfguard:file", "wfguard:dir", "wfguard:stale")
	}
	if prog == wire.ProgNFS && (proc == wire.READ || proc == wire.WRITE) {
		// transfers above 64 KiB take the per-operation rate-limit branch of the handlers
		out = append(out, "wflarge:file", "wflarge:stale")
	}
	base := c14Build(prog, proc, 1, 2, "f")
	for n := 0; n < len(base); n++ {
		out = append(out, fmt.Sprintf("prefix:%d", n))
	}
	vals := []uint32{0, 1, 0xFFFFFFFF}
	if thorough {
		vals = append(vals, 2, 8, 0x80000000)
	}
	for i := 0; i+4 <= len(base); i += 4 {
		for _, v := range vals {
			out = append(out, fmt.Sprintf("word:%d=%d", i/4, v))
		}
	}
	if len(base) == 0 {
		out = append(out, "extra:4")
	}
	return out
}

func c14Build(prog, proc uint32, dirH, objH uint64, name string) []byte {
	a := c14Args(prog, proc, dirH, objH)
	if name == "f" {
		return a
	}
	// re-encode with another name where the procedure takes one
	var e wire.Enc
	mode := wire.Sattr{Mode: wire.U32p(0o644)}
	if prog == wire.ProgMount {
		return a
	}
	switch proc {
	case wire.LOOKUP, wire.REMOVE, wire.RMDIR:
		e.FH(dirH).Str(name)
	case wire.CREATE:
		e.FH(dirH).Str(name).U32(0).Sattr(mode)
	case wire.MKDIR:
		e.FH(dirH).Str(name).Sattr(mode)
	case wire.SYMLINK:
		e.FH(dirH).Str(name).Sattr(wire.Sattr{}).Str("f")
	case wire.MKNOD:
		e.FH(dirH).Str(name).U32(7).Sattr(mode)
	case wire.RENAME:
		e.FH(dirH).Str("f").FH(dirH).Str(name)
	case wire.LINK:
		e.FH(objH).FH(dirH).Str(name)
	default:
		return a
	}
	return e.B
}

func (w *c14World) args(prog, proc uint32, shape string) []byte {
	switch {
	case strings.HasPrefix(shape, "wf:"):
		p := strings.SplitN(shape[3:], ",", 3)
		return c14Build(prog, proc, w.handleOf(p[0]), w.handleOf(p[1]), p[2])
	case strings.HasPrefix(shape, "wfcreate:"):
		var e wire.Enc
		e.FH(w.root).Str("f")
		switch shape[9:] {
		case "0,size":
			e.U32(0).Sattr(wire.Sattr{Size: wire.U64p(0)})
		case "1,size":
			e.U32(1).Sattr(wire.Sattr{Size: wire.U64p(3)})
		case "2":
			e.U32(2).Raw([]byte("verifier"))
		default:
			e.U32(0).Sattr(wire.Sattr{})
		}
		return e.B
	case strings.HasPrefix(shape, "wfrename:"):
		p := strings.SplitN(shape[9:], ",", 2)
		var e wire.Enc
		e.FH(w.handleOf(p[0])).Str("f").FH(w.handleOf(p[1])).Str("g")
		return e.B
	case shape == "wfsetsize:file":
		var e wire.Enc
		e.FH(w.file).Sattr(wire.Sattr{Size: wire.U64p(1)}).U32(0)
		return e.B
	case strings.HasPrefix(shape, "wfguard:"):
		var e wire.Enc
		e.FH(w.handleOf(shape[8:])).Sattr(wire.Sattr{Mode: wire.U32p(0o640)}).U32(1).U32(12345).U32(678)
		return e.B
	case strings.HasPrefix(shape, "wflarge:"):
		var e wire.Enc
		e.FH(w.handleOf(shape[8:])).U64(0).U32(70000)
		if proc == wire.WRITE {
			e.U32(2).Opaque(make([]byte, 70000))
		}
		return e.B
	case strings.HasPrefix(shape, "prefix:"):
		var n int
		fmt.Sscanf(shape, "prefix:%d", &n)
		b := c14Build(prog, proc, w.root, w.file, "f")
		if n > len(b) {
			n = len(b)
		}
		return b[:n]
	case strings.HasPrefix(shape, "word:"):
		var i int
		var v uint32
		fmt.Sscanf(shape, "word:%d=%d", &i, &v)
		b := append([]byte{}, c14Build(prog, proc, w.root, w.file, "f")...)
		if i*4+4 <= len(b) {
			binary.BigEndian.PutUint32(b[i*4:], v)
		}
		return b
	case shape == "extra:4":
		return []byte{0, 0, 0, 7}
	}
	return nil
}

func c14ShapeClass(shape string) string {
	switch {
	case strings.HasPrefix(shape, "wf"):
		return "wellformed"
	case strings.HasPrefix(shape, "prefix:"):
		return "truncated"
	case shape == "extra:4":
		return "extra"
	}
	return "garbage"
}

// c14One runs one case in a fresh world.
func c14One(c *vCtx, cs c14Case) {
	c.beat(func() any { return cs })
	c.res.Evaluations++
	w := c14Setup(cs.State)
	defer w.e.close()
	args := cs.Args
	if args == nil {
		args = w.args(cs.Prog, cs.Proc, cs.Shape)
	}
	class := c14ShapeClass(cs.Shape)
	pname := fmt.Sprintf("prog%d", cs.Prog)
	if cs.Prog == wire.ProgNFS {
		pname = wire.ProcName(cs.Proc)
	} else if cs.Prog == wire.ProgMount {
		pname = fmt.Sprintf("MOUNT%d", cs.Proc)
	}
	bad := func(sig, msg string) {
		c.violation("C14|"+sig, fmt.Sprintf("%s v%d in state %s, args %s (% x): %s", pname, cs.Vers, cs.State, cs.Shape, args, msg), cs)
	}
	w.e.xid++
	xid := w.e.xid
	msg := wire.Call(xid, cs.Prog, cs.Vers, cs.Proc, w.e.cred, args)
	var rb []byte
	switch cs.State {
	case "drain":
		// the call is issued while the policy write lock is held; calls that have a
		// retry-later result are answered at once, the others wait for the lock to be released
		w.e.nfs.policyRWMu.Lock()
		var err error
		done := make(chan struct{})
		go func() { rb, err = w.e.rawCall(msg); close(done) }()
		select {
		case <-done:
		case <-time.After(2 * time.Millisecond): // not an oracle: only decides when the lock is released
		}
		w.e.nfs.policyRWMu.Unlock()
		<-done
		if err != nil {
			bad("no-reply|state=drain", err.Error())
			return
		}
	case "ratelimited-conn":
		out, returned, _, p := vServeStream(w.e, wire.Record(msg), w.e.ip, w.e.port, 60*time.Second)
		if p != nil || !returned {
			bad("connection-handler-failed|state=ratelimited-conn", fmt.Sprintf("returned=%v panic=%v", returned, p))
			return
		}
		recs, rest := vSplitRecords(out)
		if len(recs) != 1 || len(rest) != 0 {
			bad("no-reply|state=ratelimited-conn", fmt.Sprintf("%d reply records, %d stray bytes", len(recs), len(rest)))
			return
		}
		rb = recs[0]
	default:
		var err error
		rb, err = w.e.rawCall(msg)
		if err != nil {
			bad("no-reply|state="+cs.State, err.Error())
			return
		}
	}
	rp, err := wire.ParseReply(rb)
	if err != nil {
		bad("rpc-reply-malformed|state="+cs.State, err.Error())
		return
	}
	if rp.Xid != xid {
		bad("xid-not-echoed", fmt.Sprintf("reply xid %#x", rp.Xid))
	}
	if rp.Denied {
		c.outcome("denied")
		return
	}
	// the drain path answers with a bare 4-byte JUKEBOX word whatever was called; classify
	// that one pattern by what the call would have needed instead of by procedure
	if cs.State == "drain" && rp.AcceptStat == 0 && len(rp.Result) == 4 && binary.BigEndian.Uint32(rp.Result) == 10008 {
		target := ""
		switch {
		case cs.Prog == wire.ProgNFS && cs.Vers == 3 && cs.Proc == wire.NULL:
			target = "nfs-null-is-void"
		case cs.Prog == wire.ProgNFS && cs.Vers == 3 && cs.Proc == wire.GETATTR:
			target = "" // GETATTR3resfail is void: a bare status word is well-formed
		case cs.Prog == wire.ProgNFS && cs.Vers == 3 && cs.Proc <= wire.COMMIT:
			target = "nfs-resfail-has-more-fields"
		case cs.Prog == wire.ProgNFS && cs.Vers == 3:
			target = "unknown-procedure"
		case cs.Prog == wire.ProgNFS || cs.Prog == wire.ProgMount && cs.Vers != 3 && cs.Vers != 1:
			target = "unsupported-version"
		case cs.Prog == wire.ProgMount:
			target = "mount-program"
		default:
			target = "unknown-program"
		}
		if target != "" {
			bad("drain-reply-is-bare-jukebox-word|call="+target,
				"during a policy drain the reply body is the 4-byte NFS3ERR_JUKEBOX word, which is not the result type of this call")
			return
		}
	}
	if rp.AcceptStat != 0 {
		c.outcome(fmt.Sprintf("accept_stat=%d", rp.AcceptStat))
		return
	}
	switch cs.Prog {
	case wire.ProgNFS:
		if cs.Vers != 3 {
			bad("result-for-unsupported-version", "SUCCESS reply for NFS version other than 3")
			return
		}
		res, err := wire.DecodeNFS(cs.Proc, rp.Result)
		if res != nil && res.BadStatus {
			sig := fmt.Sprintf("status-not-in-nfsstat3|value=%d|args=%s", res.Status, class)
			if res.Status != 4 {
				sig += "|state=" + cs.State
			}
			bad(sig,
				fmt.Sprintf("status word %d is not a member of nfsstat3", res.Status))
		}
		if err != nil {
			shape := "resfail"
			if res != nil && res.Status == 0 {
				shape = "resok"
			}
			st := "?"
			if res != nil {
				st = wire.StatName(res.Status)
			}
			bad(fmt.Sprintf("result-malformed|proc=%s|shape=%s|status=%s|state=%s", pname, shape, st, cs.State), err.Error())
			return
		}
		if res != nil {
			c.outcome(pname + ":" + wire.StatName(res.Status))
		}
	case wire.ProgMount:
		if cs.Vers != 3 {
			c.count("mount_v1_replies_not_judged", 1)
			return
		}
		res, err := wire.DecodeMount(cs.Proc, rp.Result)
		if res != nil && res.BadStatus {
			bad(fmt.Sprintf("status-not-in-mountstat3|value=%d|args=%s|state=%s", res.Status, class, cs.State),
				fmt.Sprintf("status word %d is not a member of mountstat3", res.Status))
		}
		if err != nil {
			bad(fmt.Sprintf("result-malformed|proc=%s|state=%s", pname, cs.State), err.Error())
			return
		}
		c.outcome(fmt.Sprintf("%s:%d", pname, res.Status))
	default:
		bad("result-for-unknown-program", "SUCCESS reply for a program the server does not export")
	}
}

func c14Cases(thorough bool) []c14Case {
	var cases []c14Case
	states := []string{"normal", "readonly", "drain", "ratelimited-op", "ratelimited-conn", "op-timeout"}
	type pv struct{ prog, vers uint32 }
	for _, st := range states {
		for proc := uint32(0); proc <= 23; proc++ {
			for _, sh := range c14Shapes(wire.ProgNFS, proc, thorough) {
				if st != "normal" && !thorough && strings.HasPrefix(sh, "word:") {
					continue // quick: garbage words only in the normal state
				}
				cases = append(cases, c14Case{State: st, Prog: wire.ProgNFS, Vers: 3, Proc: proc, Shape: sh})
			}
		}
		for proc := uint32(0); proc <= 6; proc++ {
			for _, v := range []uint32{3, 1} {
				for _, sh := range c14Shapes(wire.ProgMount, proc, thorough) {
					cases = append(cases, c14Case{State: st, Prog: wire.ProgMount, Vers: v, Proc: proc, Shape: sh})
				}
			}
		}
		// unknown programs / versions
		for _, p := range []pv{{wire.ProgNFS, 0}, {wire.ProgNFS, 2}, {wire.ProgNFS, 4}, {wire.ProgMount, 0}, {wire.ProgMount, 2}, {wire.ProgMount, 4},
			{100000, 2}, {0, 0}, {100021, 4}, {0xFFFFFFFF, 3}} {
			for _, proc := range []uint32{0, 1, 3} {
				cases = append(cases, c14Case{State: st, Prog: p.prog, Vers: p.vers, Proc: proc, Shape: "wf:root,file,f"})
			}
		}
	}
	return cases
}

func init() {
	vRegister(&vCheck{
		id: "C14", level: "exploration", flavour: "vtime", also: []string{"C14.conc"},
		shards: func(string) int { return 16 },
		rule:   "complete product: NFSv3 procedures 0..23 and MOUNT procedures 0..6 (v3 and v1), unknown programs/versions x argument shapes {well-formed for every (directory-slot, object-slot) handle kind in {root,dir,file,symlink,stale}^2 and 7 name kinds, READ and WRITE also with a 70000-byte transfer (the per-operation rate-limit branch), SETATTR also with a guard whose ctime cannot match, RENAME also with every pair of different handle kinds in its two directory slots; every byte-prefix of the well-formed encoding; every 32-bit word replaced by 0/1/0xFFFFFFFF (thorough adds 2/8/0x80000000)} x server states {normal, read-only, policy drain (policy write lock held), per-operation rate limit exhausted, connection-level rate limit exhausted (through the real connection loop), operation timeouts expired}; each case runs on a fresh instance; the reply must parse as an RFC 1831 reply echoing the xid and its body must decode exactly as the RFC 1813 result for (procedure, status) with the status a member of nfsstat3 / mountstat3. Distinct non-trivial = distinct (state, procedure, shape).",
		assumptions: []string{"MOUNT v1 result shapes are explored (no crash, RPC envelope judged) but not judged against MOUNT v3 shapes",
			"the wire kit is the judge of well-formedness; it was written from the RFCs, not from the repository's encoders"},
		run: func(c *vCtx) {
			cases := c14Cases(c.thorough())
			for i, cs := range cases {
				if !c.mine(i) {
					continue
				}
				c14One(c, cs)
				c.res.Distinct++
				if i%401 == 0 {
					c.sample(cs)
				}
			}
			c.res.Bounds["cases_total"] = len(cases)
		},
		replay: func(c *vCtx, raw json.RawMessage) {
			var cs c14Case
			vMust(json.Unmarshal(raw, &cs), "case")
			c14One(c, cs)
		},
	})
}
