package absnfs

// C18.conc — the limiters under concurrency (sched flavour): with refill rate 0 a bucket
// is a plain counter, so "never more than burst + rate x elapsed" becomes "admitted <=
// burst" whatever the schedule, including schedules in which the periodic clean-up of
// idle buckets runs in the middle of another thread's decision.

import (
	"fmt"
	"time"

	"github.com/absfs/absnfs/internal/verif/vsched"
)

type c18Thread struct {
	advance time.Duration // virtual time this thread lets pass before its calls (makes clean-up due)
	calls   []func(rl *RateLimiter) bool
}

func c18ConcScenario(name string, cfg RateLimiterConfig, limit int, what string, threads []c18Thread, after int, afterCall func(rl *RateLimiter) bool) vScn {
	return vScn{name: name, horizon: time.Hour, build: func() (func(), func(*vsched.Result) (string, []vScnBad)) {
		admitted, finished := 0, 0
		var rl *RateLimiter
		root := func() {
			vsched.SetQuiet(true)
			rl = NewRateLimiter(cfg)
			vsched.SetQuiet(false)
			done := vsched.NewChan[struct{}](len(threads))
			for i, th := range threads {
				th := th
				vsched.GoNamed(fmt.Sprintf("T%d", i+1), func() {
					defer done.SendNoPoint(struct{}{})
					if th.advance > 0 {
						vsched.Advance(th.advance)
					}
					for _, call := range th.calls {
						if call(rl) {
							admitted++
						}
					}
					finished++
				})
			}
			vsched.GoNamed("main", func() {
				for range threads {
					done.Recv()
				}
				vsched.SetQuiet(true)
				for i := 0; i < after; i++ { // drain what is left: the total is what counts
					if afterCall(rl) {
						admitted++
					}
				}
				finished++
			})
		}
		judge := func(res *vsched.Result) (string, []vScnBad) {
			var bad []vScnBad
			for _, p := range res.Panics {
				bad = append(bad, vScnBad{"panic", p})
			}
			if finished != len(threads)+1 {
				bad = append(bad, vScnBad{"limiter-call-blocks-forever", fmt.Sprintf("%v", res.Blocked)})
				return "blocked", bad
			}
			if admitted > limit {
				bad = append(bad, vScnBad{"admits-more-than-burst|limiter=" + what, fmt.Sprintf("%d calls admitted by the %s limiter with burst %d and refill rate 0", admitted, what, limit)})
			}
			return fmt.Sprintf("admitted=%d", admitted), bad
		}
		return root, judge
	}}
}

func c18ConcScenarios(thorough bool) []vScn {
	zero := RateLimiterConfig{GlobalRequestsPerSecond: 1000000, PerIPRequestsPerSecond: 0, PerIPBurstSize: 1000000,
		PerConnectionRequestsPerSecond: 0, PerConnectionBurstSize: 0, CleanupInterval: time.Second}
	op := func(ip string, t OperationType) func(rl *RateLimiter) bool {
		return func(rl *RateLimiter) bool { return rl.AllowOperation(ip, t) }
	}
	rq := func(ip, conn string) func(rl *RateLimiter) bool {
		return func(rl *RateLimiter) bool { return rl.AllowRequest(ip, conn) }
	}
	perIP := zero
	perIP.PerIPBurstSize = 1
	perConn := zero
	perConn.PerConnectionRequestsPerSecond, perConn.PerConnectionBurstSize = 1, 1 // rate 1/s, the clock moves by < 1 s only through T2
	global := zero
	global.GlobalRequestsPerSecond = 0
	s := []vScn{
		// per-operation buckets: mount has burst 2, rate 0 (MountOpsPerMinute 0)
		c18ConcScenario("mount-ops-vs-cleanup", zero, 2, "per-operation(mount)",
			[]c18Thread{{calls: []func(*RateLimiter) bool{op("10.0.0.1", OpTypeMount)}}, {advance: 2 * time.Second, calls: []func(*RateLimiter) bool{op("10.0.0.1", OpTypeMount)}},
				{calls: []func(*RateLimiter) bool{op("10.0.0.1", OpTypeMount)}}}, 3, op("10.0.0.1", OpTypeMount)),
		c18ConcScenario("readdir-ops-two-ips-vs-cleanup", zero, 5, "per-operation(readdir)",
			[]c18Thread{{calls: []func(*RateLimiter) bool{op("10.0.0.1", OpTypeReaddir), op("10.0.0.1", OpTypeReaddir)}}, {advance: 2 * time.Second, calls: []func(*RateLimiter) bool{func(rl *RateLimiter) bool { rl.AllowOperation("10.0.0.2", OpTypeReaddir); return false }}}, // another client: only triggers the clean-up
				{calls: []func(*RateLimiter) bool{op("10.0.0.1", OpTypeReaddir)}}}, 6, op("10.0.0.1", OpTypeReaddir)),
		c18ConcScenario("per-ip-requests-vs-cleanup", perIP, 1, "per-IP",
			[]c18Thread{{calls: []func(*RateLimiter) bool{rq("10.0.0.1", "c1")}}, {advance: 2 * time.Second, calls: []func(*RateLimiter) bool{rq("10.0.0.1", "c2")}},
				{calls: []func(*RateLimiter) bool{rq("10.0.0.1", "c3")}}}, 2, rq("10.0.0.1", "c4")),
	}
	if thorough {
		s = append(s, c18ConcScenario("global-requests", global, 0, "global",
			[]c18Thread{{calls: []func(*RateLimiter) bool{rq("10.0.0.1", "c1")}}, {calls: []func(*RateLimiter) bool{rq("10.0.0.2", "c2")}}, {calls: []func(*RateLimiter) bool{rq("10.0.0.3", "c3")}}}, 1, rq("10.0.0.4", "c4")))
	}
	return s
}
