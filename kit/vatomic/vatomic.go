// Package vatomic is the scheduler-visible stand-in for sync/atomic: every
// operation is a scheduling point followed by the real atomic operation.
package vatomic

import (
	"sync/atomic"

	"github.com/absfs/absnfs/internal/verif/vsched"
)

func pt(kind string) {
	if vsched.Active() {
		vsched.Point(&vsched.Op{Kind: kind, Obj: "atomic"})
	}
}

func AddInt32(p *int32, d int32) int32     { pt("atomic.Add"); return atomic.AddInt32(p, d) }
func AddInt64(p *int64, d int64) int64     { pt("atomic.Add"); return atomic.AddInt64(p, d) }
func AddUint32(p *uint32, d uint32) uint32 { pt("atomic.Add"); return atomic.AddUint32(p, d) }
func AddUint64(p *uint64, d uint64) uint64 { pt("atomic.Add"); return atomic.AddUint64(p, d) }
func LoadInt32(p *int32) int32             { pt("atomic.Load"); return atomic.LoadInt32(p) }
func LoadInt64(p *int64) int64             { pt("atomic.Load"); return atomic.LoadInt64(p) }
func LoadUint32(p *uint32) uint32          { pt("atomic.Load"); return atomic.LoadUint32(p) }
func LoadUint64(p *uint64) uint64          { pt("atomic.Load"); return atomic.LoadUint64(p) }
func StoreInt32(p *int32, v int32)         { pt("atomic.Store"); atomic.StoreInt32(p, v) }
func StoreInt64(p *int64, v int64)         { pt("atomic.Store"); atomic.StoreInt64(p, v) }
func StoreUint32(p *uint32, v uint32)      { pt("atomic.Store"); atomic.StoreUint32(p, v) }
func StoreUint64(p *uint64, v uint64)      { pt("atomic.Store"); atomic.StoreUint64(p, v) }
func SwapInt32(p *int32, v int32) int32    { pt("atomic.Swap"); return atomic.SwapInt32(p, v) }
func SwapInt64(p *int64, v int64) int64    { pt("atomic.Swap"); return atomic.SwapInt64(p, v) }
func CompareAndSwapInt32(p *int32, o, n int32) bool {
	pt("atomic.CAS")
	return atomic.CompareAndSwapInt32(p, o, n)
}
func CompareAndSwapInt64(p *int64, o, n int64) bool {
	pt("atomic.CAS")
	return atomic.CompareAndSwapInt64(p, o, n)
}
func CompareAndSwapUint32(p *uint32, o, n uint32) bool {
	pt("atomic.CAS")
	return atomic.CompareAndSwapUint32(p, o, n)
}
func CompareAndSwapUint64(p *uint64, o, n uint64) bool {
	pt("atomic.CAS")
	return atomic.CompareAndSwapUint64(p, o, n)
}

type Int32 struct{ v atomic.Int32 }

func (x *Int32) Load() int32                    { pt("atomic.Load"); return x.v.Load() }
func (x *Int32) Store(v int32)                  { pt("atomic.Store"); x.v.Store(v) }
func (x *Int32) Add(d int32) int32              { pt("atomic.Add"); return x.v.Add(d) }
func (x *Int32) Swap(v int32) int32             { pt("atomic.Swap"); return x.v.Swap(v) }
func (x *Int32) CompareAndSwap(o, n int32) bool { pt("atomic.CAS"); return x.v.CompareAndSwap(o, n) }

type Int64 struct{ v atomic.Int64 }

func (x *Int64) Load() int64                    { pt("atomic.Load"); return x.v.Load() }
func (x *Int64) Store(v int64)                  { pt("atomic.Store"); x.v.Store(v) }
func (x *Int64) Add(d int64) int64              { pt("atomic.Add"); return x.v.Add(d) }
func (x *Int64) Swap(v int64) int64             { pt("atomic.Swap"); return x.v.Swap(v) }
func (x *Int64) CompareAndSwap(o, n int64) bool { pt("atomic.CAS"); return x.v.CompareAndSwap(o, n) }

type Uint32 struct{ v atomic.Uint32 }

func (x *Uint32) Load() uint32                    { pt("atomic.Load"); return x.v.Load() }
func (x *Uint32) Store(v uint32)                  { pt("atomic.Store"); x.v.Store(v) }
func (x *Uint32) Add(d uint32) uint32             { pt("atomic.Add"); return x.v.Add(d) }
func (x *Uint32) CompareAndSwap(o, n uint32) bool { pt("atomic.CAS"); return x.v.CompareAndSwap(o, n) }

type Uint64 struct{ v atomic.Uint64 }

func (x *Uint64) Load() uint64                    { pt("atomic.Load"); return x.v.Load() }
func (x *Uint64) Store(v uint64)                  { pt("atomic.Store"); x.v.Store(v) }
func (x *Uint64) Add(d uint64) uint64             { pt("atomic.Add"); return x.v.Add(d) }
func (x *Uint64) CompareAndSwap(o, n uint64) bool { pt("atomic.CAS"); return x.v.CompareAndSwap(o, n) }

type Bool struct{ v atomic.Bool }

func (x *Bool) Load() bool                    { pt("atomic.Load"); return x.v.Load() }
func (x *Bool) Store(v bool)                  { pt("atomic.Store"); x.v.Store(v) }
func (x *Bool) Swap(v bool) bool              { pt("atomic.Swap"); return x.v.Swap(v) }
func (x *Bool) CompareAndSwap(o, n bool) bool { pt("atomic.CAS"); return x.v.CompareAndSwap(o, n) }

type Value struct{ v atomic.Value }

func (x *Value) Load() any                    { pt("atomic.Load"); return x.v.Load() }
func (x *Value) Store(v any)                  { pt("atomic.Store"); x.v.Store(v) }
func (x *Value) Swap(v any) any               { pt("atomic.Swap"); return x.v.Swap(v) }
func (x *Value) CompareAndSwap(o, n any) bool { pt("atomic.CAS"); return x.v.CompareAndSwap(o, n) }

type Pointer[T any] struct{ v atomic.Pointer[T] }

// Peek reads without a scheduling point (harness observation only).
func (x *Pointer[T]) Peek() *T { return x.v.Load() }

func (x *Pointer[T]) Load() *T                    { pt("atomic.Load"); return x.v.Load() }
func (x *Pointer[T]) Store(p *T)                  { pt("atomic.Store"); x.v.Store(p) }
func (x *Pointer[T]) Swap(p *T) *T                { pt("atomic.Swap"); return x.v.Swap(p) }
func (x *Pointer[T]) CompareAndSwap(o, n *T) bool { pt("atomic.CAS"); return x.v.CompareAndSwap(o, n) }
