package main

import "fmt"

// warmFlavours lists the build flavours that `vcheck warm` pre-builds.
var warmFlavours = []string{"vtime", "plain"}

// genSched is replaced by the real rewriter in rewrite.go once built.
var genSched = func(ovDir string, srcs []string, repl map[string]string) error {
	return fmt.Errorf("sched flavour not built")
}
