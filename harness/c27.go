package absnfs

// C27 — portmapper: registry semantics and loopback-only modification.
// Explicit-state search to fix-point over SET/UNSET calls of all three
// protocol versions from loopback and non-loopback addresses; after every
// transition GETPORT / GETADDR / both DUMPs are compared with a map model.

import (
	"encoding/json"
	"fmt"
	"sort"
	"strconv"
	"strings"

	"github.com/absfs/absnfs/internal/verif/wire"
)

type pmAddr string

func (a pmAddr) Network() string { return "tcp" }
func (a pmAddr) String() string  { return string(a) }

type pmOp struct {
	Vers  uint32 `json:"vers"`
	Kind  string `json:"kind"` // set unset
	Prog  uint32 `json:"prog"`
	Netid string `json:"netid"` // tcp udp tcp6 (v2: tcp=6 udp=17)
	Port  uint32 `json:"port"`
	Addr  string `json:"addr"`
}

type pmKey struct {
	prog, vers, prot uint32
}

type pmState struct {
	pm    *Portmapper
	model map[pmKey]uint32
	c     *vCtx
	xid   uint32
}

var pmAddrs = []struct {
	addr     string
	loopback bool
}{
	{"127.0.0.1:812", true}, {"127.8.8.8:1", true}, {"[::1]:700", true}, {"[::ffff:127.0.0.1]:700", true},
	{"10.0.0.5:900", false}, {"[2001:db8::1]:900", false}, {"[::ffff:10.0.0.5]:900", false},
	{"[fe80::1%eth0]:900", false}, {"unix-pipe", false}, {"127.0.0.1.evil.example:5", false},
}

func pmLoopback(addr string) bool {
	for _, a := range pmAddrs {
		if a.addr == addr {
			return a.loopback
		}
	}
	return false
}

func pmProt(netid string) uint32 {
	if strings.HasPrefix(netid, "udp") {
		return 17
	}
	return 6
}

func (s *pmState) call(vers, proc uint32, args []byte, addr string) ([]byte, error) {
	s.xid++
	msg := wire.Call(s.xid, wire.ProgPortmap, vers, proc, wire.Cred{}, args)
	rb, err := s.pm.handleCall(msg, pmAddr(addr))
	if err != nil {
		return nil, err
	}
	rp, err := wire.ParseReply(rb)
	if err != nil {
		return nil, fmt.Errorf("malformed reply: %w (% x)", err, rb)
	}
	if rp.Xid != s.xid {
		return nil, fmt.Errorf("xid %d echoed as %d", s.xid, rp.Xid)
	}
	if rp.Denied || rp.AcceptStat != 0 {
		return nil, fmt.Errorf("not accepted: denied=%v accept_stat=%d", rp.Denied, rp.AcceptStat)
	}
	return rp.Result, nil
}

func (s *pmState) key() string {
	ms := s.pm.GetMappings()
	var parts []string
	for _, m := range ms {
		parts = append(parts, fmt.Sprintf("%d/%d/%d=%d", m.Program, m.Version, m.Protocol, m.Port))
	}
	sort.Strings(parts)
	return strings.Join(parts, ",")
}

func pmOps() []pmOp {
	var ops []pmOp
	for _, v := range []uint32{2, 3, 4} {
		for _, prog := range []uint32{100003, 100005} {
			netids := []string{"tcp", "udp"}
			if v != 2 {
				netids = append(netids, "tcp6", "udp6")
			}
			for _, nid := range netids {
				for _, a := range pmAddrs {
					for _, port := range []uint32{2049, 635} {
						ops = append(ops, pmOp{Vers: v, Kind: "set", Prog: prog, Netid: nid, Port: port, Addr: a.addr})
					}
					ops = append(ops, pmOp{Vers: v, Kind: "unset", Prog: prog, Netid: nid, Addr: a.addr})
				}
			}
		}
	}
	return ops
}

func (s *pmState) args(op pmOp) (uint32, []byte) {
	var a wire.Enc
	proc := uint32(1)
	if op.Kind == "unset" {
		proc = 2
	}
	if op.Vers == 2 {
		a.U32(op.Prog).U32(3).U32(pmProt(op.Netid)).U32(op.Port)
	} else {
		uaddr := fmt.Sprintf("127.0.0.1.%d.%d", op.Port/256, op.Port%256)
		if op.Kind == "unset" {
			uaddr = ""
		}
		a.U32(op.Prog).U32(3).Str(op.Netid).Str(uaddr).Str("owner")
	}
	return proc, a.B
}

func uaddrPort(u string) (uint32, bool) {
	parts := strings.Split(u, ".")
	if len(parts) < 3 {
		return 0, false
	}
	hi, e1 := strconv.Atoi(parts[len(parts)-2])
	lo, e2 := strconv.Atoi(parts[len(parts)-1])
	if e1 != nil || e2 != nil || hi < 0 || hi > 255 || lo < 0 || lo > 255 {
		return 0, false
	}
	return uint32(hi*256 + lo), true
}

func (s *pmState) apply(op pmOp, check bool, hist []pmOp) {
	cs := func() any { return map[string]any{"hist": append(append([]pmOp(nil), hist...), op)} }
	proc, args := s.args(op)
	before := s.key()
	res, err := s.call(op.Vers, proc, args, op.Addr)
	after := s.key()
	k := pmKey{op.Prog, 3, pmProt(op.Netid)}
	lb := pmLoopback(op.Addr)
	vname := fmt.Sprintf("v%d", op.Vers)
	if err != nil {
		if check {
			s.c.violation(fmt.Sprintf("C27|call-failed|proc=%s|%s", op.Kind, vname), fmt.Sprintf("%+v: %v", op, err), cs())
		}
		return
	}
	r, derr := wire.DecodePmap(op.Vers, proc, res)
	if derr != nil && check {
		s.c.violation(fmt.Sprintf("C27|reply-malformed|proc=%s|%s", op.Kind, vname), derr.Error(), cs())
	}
	if !lb {
		// a non-loopback client never changes the map
		if after != before && check {
			class := "ip"
			switch {
			case strings.Contains(op.Addr, "%"):
				class = "zone-qualified"
			case !strings.Contains(op.Addr, ":") || strings.Contains(op.Addr, "evil"):
				class = "unparseable"
			}
			s.c.violation(fmt.Sprintf("C27|non-loopback-client-changes-map|proc=%s|%s|addr=%s", op.Kind, vname, class),
				fmt.Sprintf("%s %s from %s changed the registry: %q -> %q", vname, op.Kind, op.Addr, before, after), cs())
		}
		if r != nil && r.Bool && after == before && check && op.Kind == "set" {
			if _, had := s.model[k]; !had || s.model[k] != op.Port {
				s.c.count("refused_set_answered_true", 1)
			}
		}
		// continue from what the implementation did (the model follows the observed registry)
		s.resync()
		return
	}
	// loopback: the model offers a set of allowed outcomes
	switch op.Kind {
	case "set":
		_, had := s.model[k]
		upd := s.clone()
		upd[k] = op.Port
		okUpdate := pmModelKey(upd) == after
		okRefuse := had && after == before
		if !okUpdate && !okRefuse && check {
			s.c.violation(fmt.Sprintf("C27|set-does-not-update-map|%s", vname),
				fmt.Sprintf("%s SET %+v from loopback: registry %q -> %q, expected %q", vname, op, before, after, pmModelKey(upd)), cs())
		}
	case "unset":
		one := s.clone()
		delete(one, k)
		all := s.clone()
		for kk := range all {
			if kk.prog == k.prog && kk.vers == k.vers {
				delete(all, kk)
			}
		}
		if after != pmModelKey(one) && after != pmModelKey(all) && check {
			s.c.violation(fmt.Sprintf("C27|unset-does-not-update-map|%s", vname),
				fmt.Sprintf("%s UNSET %+v from loopback: registry %q -> %q, expected %q", vname, op, before, after, pmModelKey(one)), cs())
		}
	}
	s.resync()
	if check {
		s.observe(cs)
	}
}

func (s *pmState) clone() map[pmKey]uint32 {
	m := map[pmKey]uint32{}
	for k, v := range s.model {
		m[k] = v
	}
	return m
}

func pmModelKey(m map[pmKey]uint32) string {
	var parts []string
	for k, v := range m {
		parts = append(parts, fmt.Sprintf("%d/%d/%d=%d", k.prog, k.vers, k.prot, v))
	}
	sort.Strings(parts)
	return strings.Join(parts, ",")
}

// resync makes the model follow the implementation's registry.
func (s *pmState) resync() {
	s.model = map[pmKey]uint32{}
	for _, m := range s.pm.GetMappings() {
		s.model[pmKey{m.Program, m.Version, m.Protocol}] = m.Port
	}
}

// observe: GETPORT, GETADDR and both DUMP variants report exactly the model.
func (s *pmState) observe(cs func() any) {
	from := "10.9.9.9:40000" // queries are open to everybody
	for _, prog := range []uint32{100003, 100005, 100024} {
		for _, prot := range []uint32{6, 17} {
			want := s.model[pmKey{prog, 3, prot}]
			var a wire.Enc
			a.U32(prog).U32(3).U32(prot).U32(0)
			res, err := s.call(2, 3, a.B, from)
			if err != nil {
				s.c.violation("C27|call-failed|proc=getport|v2", err.Error(), cs())
				continue
			}
			r, derr := wire.DecodePmap(2, 3, res)
			if derr != nil {
				s.c.violation("C27|reply-malformed|proc=getport|v2", derr.Error(), cs())
				continue
			}
			if r.Port != want {
				s.c.violation("C27|getport-disagrees-with-map", fmt.Sprintf("GETPORT(%d,3,%d)=%d, registry says %d", prog, prot, r.Port, want), cs())
			}
			for _, v := range []uint32{3, 4} {
				for _, nid := range []string{"tcp", "udp", "tcp6", "udp6"} {
					if pmProt(nid) != prot {
						continue
					}
					var b wire.Enc
					b.U32(prog).U32(3).Str(nid).Str("").Str("")
					res, err := s.call(v, 3, b.B, from)
					if err != nil {
						s.c.violation(fmt.Sprintf("C27|call-failed|proc=getaddr|v%d", v), err.Error(), cs())
						continue
					}
					r, derr := wire.DecodePmap(v, 3, res)
					if derr != nil {
						s.c.violation(fmt.Sprintf("C27|reply-malformed|proc=getaddr|v%d", v), derr.Error(), cs())
						continue
					}
					got, ok := uaddrPort(r.Addr)
					if want == 0 && r.Addr != "" || want != 0 && (!ok || got != want) {
						s.c.violation("C27|getaddr-disagrees-with-map", fmt.Sprintf("v%d GETADDR(%d,3,%s)=%q, registry port %d", v, prog, nid, r.Addr, want), cs())
					}
				}
			}
		}
	}
	for _, v := range []uint32{2, 3, 4} {
		res, err := s.call(v, 4, nil, from)
		if err != nil {
			s.c.violation(fmt.Sprintf("C27|call-failed|proc=dump|v%d", v), err.Error(), cs())
			continue
		}
		r, derr := wire.DecodePmap(v, 4, res)
		if derr != nil {
			s.c.violation(fmt.Sprintf("C27|reply-malformed|proc=dump|v%d", v), derr.Error(), cs())
			continue
		}
		got := map[pmKey]uint32{}
		for _, e := range r.Entries {
			k := pmKey{e.Prog, e.Vers, e.Prot}
			port := e.Port
			if v != 2 {
				k.prot = pmProt(e.Netid)
				port, _ = uaddrPort(e.Addr)
			}
			if _, dup := got[k]; dup {
				s.c.violation(fmt.Sprintf("C27|dump-lists-key-twice|v%d", v), fmt.Sprintf("%+v", e), cs())
			}
			got[k] = port
		}
		if pmModelKey(got) != pmModelKey(s.model) {
			s.c.violation(fmt.Sprintf("C27|dump-disagrees-with-map|v%d", v), fmt.Sprintf("v%d DUMP reports %q, registry %q", v, pmModelKey(got), pmModelKey(s.model)), cs())
		}
	}
}

func init() {
	vRegister(&vCheck{
		id: "C27", level: "model_checking", flavour: "vtime",
		shards: func(string) int { return 1 },
		rule: "breadth-first search to fix-point over the registry states reachable with SET/UNSET through portmap v2 and rpcbind v3/v4 (programs {100003,100005}, netids {tcp,udp,tcp6,udp6}, ports {2049,635}) from 10 remote addresses (4 loopback forms, 3 non-loopback, a zone-qualified IPv6, an unparseable address, a look-alike host name); state = the registry; after every transition GETPORT for every key, GETADDR v3/v4 for every (program, netid) and DUMP v2/v3/v4 are decoded strictly and compared with the map model; a SET/UNSET from a non-loopback address must leave the registry unchanged. Additionally version/procedure/program mismatches are decoded strictly.",
		assumptions: []string{"SET on an existing key may update it or refuse; UNSET may remove the one protocol or all protocols of (program, version) — RFC 1833 and the implementation differ, both are accepted",
			"an address that does not parse as an IP is 'not on a loopback address'"},
		run: func(c *vCtx) {
			ops := pmOps()
			mk := func() *pmState {
				s := &pmState{pm: NewPortmapper(), c: c, model: map[pmKey]uint32{}}
				s.pm.SetListenAddr("127.0.0.1")
				return s
			}
			eng := &vHist[*pmState, pmOp]{
				New:     mk,
				Apply:   func(s *pmState, op pmOp, check bool, hist []pmOp) { s.apply(op, check, hist) },
				Enabled: func(s *pmState) []pmOp { return ops },
				Key:     func(s *pmState) string { return s.key() },
				Close:   func(s *pmState) { s.pm.cancel() },
				All:     true,
			}
			st, tr, _ := eng.run(c, 12)
			c.res.States, c.res.Transitions, c.res.Traces = st, tr, tr
			c.res.Bounds["alphabet"] = len(ops)
			c.res.Bounds["depth"] = "fix-point (no new registry state), cap 12"
			c.sample(map[string]any{"ops": ops[:3], "states": st})
			// envelope cases: mismatches must be well-formed replies
			s := mk()
			for _, t := range []struct{ prog, vers, proc uint32 }{{100000, 5, 0}, {100000, 1, 3}, {100000, 2, 9}, {100000, 3, 9}, {100003, 2, 0}, {0, 0, 0}} {
				s.xid++
				msg := wire.Call(s.xid, t.prog, t.vers, t.proc, wire.Cred{}, nil)
				rb, err := s.pm.handleCall(msg, pmAddr("127.0.0.1:1"))
				c.res.Evaluations++
				if err != nil {
					c.violation("C27|call-failed|envelope", fmt.Sprintf("%+v: %v", t, err), t)
					continue
				}
				if _, err := wire.ParseReply(rb); err != nil {
					c.violation(fmt.Sprintf("C27|rpc-reply-malformed|prog=%d|vers=%d|proc=%d", t.prog, t.vers, t.proc), fmt.Sprintf("%v (% x)", err, rb), t)
				}
			}
		},
		replay: func(c *vCtx, raw json.RawMessage) {
			var cs struct {
				Hist []pmOp `json:"hist"`
			}
			if json.Unmarshal(raw, &cs) != nil || len(cs.Hist) == 0 {
				// envelope case
				var t struct{ Prog, Vers, Proc uint32 }
				json.Unmarshal(raw, &t)
				s := &pmState{pm: NewPortmapper(), c: c, model: map[pmKey]uint32{}}
				msg := wire.Call(1, t.Prog, t.Vers, t.Proc, wire.Cred{}, nil)
				rb, err := s.pm.handleCall(msg, pmAddr("127.0.0.1:1"))
				if err == nil {
					if _, err := wire.ParseReply(rb); err != nil {
						c.violation(fmt.Sprintf("C27|rpc-reply-malformed|prog=%d|vers=%d|proc=%d", t.Prog, t.Vers, t.Proc), err.Error(), t)
					}
				}
				return
			}
			s := &pmState{pm: NewPortmapper(), c: c, model: map[pmKey]uint32{}}
			s.pm.SetListenAddr("127.0.0.1")
			for i, op := range cs.Hist {
				s.apply(op, i == len(cs.Hist)-1, cs.Hist[:i])
			}
		},
	})
}
