package main

import "fmt"

// genSched is replaced by the real rewriter in rewrite.go once built.
var genSched = func(ovDir string, srcs []string, repl map[string]string) error {
	return fmt.Errorf("sched flavour not built")
}
