package absnfs

// C21.conc — the concurrent clause of C21, a part of check C21 run in the sched flavour.

import "encoding/json"

func init() {
	vRegister(&vCheck{
		id: "C21.conc", level: "model_checking", flavour: "sched", race: false,
		shards: func(string) int { return 16 },
		rule: "stateless model checking of the real AttrCache and DirCache (source-instrumented, controlled scheduler): 2-3 threads of 1-2 operations each (Get vs Invalidate+Put, Put/Put/Get on one key, PutNegative vs ConfigureNegativeCaching(off) vs Get, Clear/Put/Get, InvalidateNegativeInDir/PutNegative/Get, Get vs an evicting Put at capacity, Resize/Put/Get, directory Put/Invalidate/Get, directory Get vs evicting Put; thorough adds an expired entry and two Gets vs an evicting Put); every choice sequence within D-bound 6 (thorough D-bound 10), which for these short scenarios is close to or equal to all schedules is executed. Oracles per execution: every operation returns, no panic; the vector of operation results plus the final cache contents equals that of some interleaving of whole operations (all of them executed on the real code); structurally: size <= capacity, LRU list and map have the same members, negative entries only while negative caching is enabled.",
		assumptions: []string{"scheduling points are the lock operations of the caches; plain memory accesses between them are atomic steps"},
		run: func(c *vCtx) {
			vSchedRunPlans(c, "C21", c21ConcScenarios(c.thorough()), []vPlan{{"D", 6}}, []vPlan{{"D", 10}})
		},
		replay: func(c *vCtx, raw json.RawMessage) { vSchedReplay(c, "C21", c21ConcScenarios(true), raw) },
	})
}
