package absnfs

// C29 scenarios (sched flavour only): small concurrent request histories over
// shared files and directories, compared with every serial order.

import (
	"fmt"
	"sort"
	"strings"
	"time"

	"github.com/absfs/absnfs/internal/verif/recfs"
	"github.com/absfs/absnfs/internal/verif/vsched"
	"github.com/absfs/absnfs/internal/verif/wire"
)

type c29Req struct {
	name   string
	thread int
	proc   uint32
	args   func(w *rqWorld) []byte
	obj    string // path whose attributes the reply reports (weak clause)
	dir    string // directory listed / looked up in
	child  string // name looked up
}

type c29Spec struct {
	name    string
	opts    ExportOptions
	strict  bool
	cold    bool // caches emptied after set-up: the requests fill them themselves
	lookups []string
	reqs    []c29Req
}

type c29Obs struct {
	req    c29Req
	status uint32
	ok     bool // decoded NFS result available
	sizes  []uint64
	names  []string
	typ    uint32
	size   uint64
	hasAt  bool
	fhs    []uint64
}

func c29Plant(fs *recfs.FS) {
	fs.Mkdir("/d", 0755)
	f, _ := fs.Create("/f")
	f.Write([]byte("0123"))
	f.Close()
	g, _ := fs.Create("/d/x")
	g.Write([]byte("xx"))
	g.Close()
	k, _ := fs.Create("/d/y")
	k.Write([]byte("y"))
	k.Close()
}

// c29Summary renders the primary results of a reply; post-operation attributes are
// advisory (RFC 1813 weak cache consistency) and are judged by the weak clause only.
func c29Summary(o *c29Obs, res *wire.NFSRes) string {
	o.status, o.ok = res.Status, true
	note := func(a *wire.Fattr) {
		if a != nil {
			o.sizes = append(o.sizes, a.Size)
		}
	}
	if fh, ok := wire.FHVal(res.FH); ok && res.Status == 0 {
		o.fhs = append(o.fhs, fh)
	}
	if res.Wcc != nil {
		note(res.Wcc.After)
	}
	if res.Status != 0 {
		return ""
	}
	switch res.Proc {
	case wire.LOOKUP, wire.GETATTR:
		if res.Attr == nil {
			return "noattr"
		}
		o.typ, o.size, o.hasAt = res.Attr.Type, res.Attr.Size, true
		o.sizes = append(o.sizes, res.Attr.Size)
		return fmt.Sprintf("type=%d size=%d", res.Attr.Type, res.Attr.Size)
	case wire.READ:
		note(res.Attr)
		return fmt.Sprintf("data=%q eof=%v", res.Data, res.EOF)
	case wire.WRITE:
		return fmt.Sprintf("count=%d", res.Count)
	case wire.READDIR, wire.READDIRPLUS:
		var names []string
		for _, e := range res.Entries {
			if e.Name == "." || e.Name == ".." {
				continue
			}
			n := e.Name
			o.names = append(o.names, e.Name)
			if h, ok := wire.FHVal(e.FH); ok {
				o.fhs = append(o.fhs, h)
			}
			if e.Attr != nil {
				n += fmt.Sprintf("(%d)", e.Attr.Size)
			}
			names = append(names, n)
		}
		sort.Strings(names)
		return "names=" + strings.Join(names, ",") + fmt.Sprintf(" eof=%v", res.EOF)
	case wire.CREATE, wire.MKDIR, wire.SYMLINK:
		note(res.Attr)
		return fmt.Sprintf("fh=%v", len(res.FH) > 0)
	}
	return ""
}

type c29Run struct {
	w     *rqWorld
	obs   map[string]*c29Obs
	probe []string // disagreements found by the post-state probe
	trees []map[string]recfs.Node
	done  bool
}

func c29Snapshot(w *rqWorld) map[string]recfs.Node {
	m := map[string]recfs.Node{}
	for _, n := range w.e.fs.Dump() {
		m[n.Path] = n
	}
	return m
}

// c29Exec builds the world and runs the requests: order == nil concurrently (one
// thread per spec thread), otherwise sequentially in the given order, quietly.
func c29Exec(spec c29Spec, order []int) (root func(), run *c29Run) {
	run = &c29Run{obs: map[string]*c29Obs{}}
	root = func() {
		w := rqNew(spec.opts, c29Plant, spec.lookups...)
		run.w = w
		if spec.cold {
			w.e.nfs.attrCache.Clear()
			if w.e.nfs.dirCache != nil {
				w.e.nfs.dirCache.Clear()
			}
		}
		run.trees = append(run.trees, c29Snapshot(w))
		prevDone := w.e.fs.Done
		w.e.fs.Done = func(op *recfs.Op) {
			prevDone(op)
			if op.Mut {
				run.trees = append(run.trees, c29Snapshot(w))
			}
		}
		prevHook := w.e.fs.Hook
		w.e.fs.Hook = func(op *recfs.Op) error {
			vsched.Advance(time.Microsecond) // minimal-TTL entries do not survive a backend call
			return prevHook(op)
		}
		do := func(rq c29Req) {
			o := &c29Obs{req: rq}
			run.obs[rq.name] = o
			rp := &rqReply{}
			w.replies[rq.name] = rp
			vsched.Advance(time.Microsecond)
			w.call(rq.name, rp, rq.proc, rq.args(w), func(res *wire.NFSRes) string { return c29Summary(o, res) })
		}
		allDone := vsched.NewChan[struct{}](0)
		if order != nil {
			vsched.SetQuiet(true)
			for _, i := range order {
				do(spec.reqs[i])
			}
			c29Probe(spec, run)
			run.done = true
			return
		}
		threads := map[int][]c29Req{}
		var ids []int
		for _, rq := range spec.reqs {
			if _, ok := threads[rq.thread]; !ok {
				ids = append(ids, rq.thread)
			}
			threads[rq.thread] = append(threads[rq.thread], rq)
		}
		left := len(ids)
		for _, id := range ids {
			rqs := threads[id]
			vsched.GoNamed(fmt.Sprintf("req%d", id), func() {
				for _, rq := range rqs {
					do(rq)
				}
				left--
				if left == 0 {
					allDone.CloseNoPoint()
				}
			})
		}
		vsched.GoNamed("probe", func() {
			allDone.Recv2()
			vsched.SetQuiet(true)
			c29Probe(spec, run)
			run.done = true
		})
	}
	return root, run
}

// c29Probe compares what the server says after quiescence with the backend.
func c29Probe(spec c29Spec, run *c29Run) {
	w := run.w
	tree := c29Snapshot(w)
	vsched.Advance(time.Microsecond) // minimal-TTL entries of the requests have expired by now
	bad := func(f string, a ...any) { run.probe = append(run.probe, fmt.Sprintf(f, a...)) }
	fm := w.e.nfs.fileMap
	// handle table <-> path map
	for h, f := range fm.handles {
		if n, ok := f.(*NFSNode); ok && n.path != "" {
			if fm.pathHandles[n.path] != h {
				bad("table|handle %d is for %s but the path map says %d", h, n.path, fm.pathHandles[n.path])
			}
		}
	}
	for p, h := range fm.pathHandles {
		n, ok := fm.handles[h].(*NFSNode)
		if !ok || n.path != p {
			bad("table|path map entry %s -> %d has no matching handle", p, h)
		}
	}
	// (cache-served answers first: GETATTR goes to the backend and would refresh the caches)
	// directories: listing and lookups
	for _, d := range []string{"/", "/d"} {
		dh, ok := w.h[d]
		if !ok {
			continue
		}
		var want []string
		for p, n := range tree {
			if p != "/" && parentOf(p) == d {
				want = append(want, baseOf(p))
				res, err := w.e.lookup(dh, baseOf(p))
				if err != nil {
					bad("lookup|%s: %v", p, err)
				} else if res.Status != 0 {
					bad("lookup|%s exists in the backend but LOOKUP says %s", p, wire.StatName(res.Status))
				} else if res.Attr != nil && n.Kind == "f" && res.Attr.Size != uint64(n.Size) {
					bad("lookup|%s: size %d reported, backend has %d", p, res.Attr.Size, n.Size)
				}
			}
		}
		sort.Strings(want)
		var a wire.Enc
		a.FH(dh).U64(0).Raw(make([]byte, 8)).U32(4096)
		res, _, err := w.e.nfsCall(wire.READDIR, a.B)
		if err != nil || res == nil || res.Status != 0 {
			bad("readdir|%s: no listing (%v)", d, err)
			continue
		}
		var got []string
		for _, e := range res.Entries {
			if e.Name != "." && e.Name != ".." {
				got = append(got, e.Name)
			}
		}
		sort.Strings(got)
		if strings.Join(got, ",") != strings.Join(want, ",") {
			bad("readdir|%s lists [%s], backend has [%s]", d, strings.Join(got, ","), strings.Join(want, ","))
		}
	}
	// names the scenario may have removed
	for _, rq := range spec.reqs {
		if rq.child == "" {
			continue
		}
		p := strings.TrimSuffix(rq.dir, "/") + "/" + rq.child
		if _, exists := tree[p]; exists {
			continue
		}
		if dh, ok := w.h[rq.dir]; ok {
			res, err := w.e.lookup(dh, rq.child)
			if err == nil && res.Status == 0 {
				bad("lookup|%s is absent from the backend but LOOKUP succeeds", p)
			}
		}
	}
	// every handle a client holds
	held := map[uint64]bool{}
	for _, h := range w.h {
		held[h] = true
	}
	for _, o := range run.obs {
		for _, h := range o.fhs {
			held[h] = true
		}
	}
	var hs []uint64
	for h := range held {
		hs = append(hs, h)
	}
	sort.Slice(hs, func(i, j int) bool { return hs[i] < hs[j] })
	for _, h := range hs {
		var a wire.Enc
		a.FH(h)
		res, _, err := w.e.nfsCall(wire.GETATTR, a.B)
		if err != nil || res == nil {
			bad("getattr|handle %d: no decodable reply (%v)", h, err)
			continue
		}
		n, _ := fm.handles[h].(*NFSNode)
		switch {
		case n == nil:
			if res.Status == 0 {
				bad("getattr|handle %d is not in the table but GETATTR succeeds", h)
			}
		default:
			b, exists := tree[n.path]
			if !exists {
				if res.Status == 0 {
					bad("getattr|handle %d (%s): object is gone from the backend but GETATTR reports OK size %d", h, n.path, res.Attr.Size)
				}
			} else if res.Status != 0 {
				bad("getattr|handle %d (%s): exists in the backend but GETATTR says %s", h, n.path, wire.StatName(res.Status))
			} else if b.Kind == "f" && res.Attr.Size != uint64(b.Size) {
				bad("getattr|handle %d (%s): size %d reported, backend has %d", h, n.path, res.Attr.Size, b.Size)
			} else if (b.Kind == "d") != (res.Attr.Type == 2) {
				bad("getattr|handle %d (%s): type %d reported, backend kind %s", h, n.path, res.Attr.Type, b.Kind)
			}
		}
	}
	sort.Strings(run.probe)
}

func parentOf(p string) string {
	i := strings.LastIndexByte(p, '/')
	if i <= 0 {
		return "/"
	}
	return p[:i]
}

func baseOf(p string) string { return p[strings.LastIndexByte(p, '/')+1:] }

func c29Outcome(spec c29Spec, run *c29Run) string {
	var parts []string
	for _, rq := range spec.reqs {
		rp := run.w.replies[rq.name]
		s := "none"
		if rp != nil {
			s = rp.summary
		}
		parts = append(parts, rq.name+"="+s)
	}
	return strings.Join(parts, " ; ") + " || " + strings.ReplaceAll(strings.TrimSpace(run.w.e.fs.DumpString()), "\n", " / ")
}

// c29Orders enumerates the permutations that keep each thread's program order.
func c29Orders(spec c29Spec) [][]int {
	n := len(spec.reqs)
	var out [][]int
	var rec func(cur []int, used []bool)
	rec = func(cur []int, used []bool) {
		if len(cur) == n {
			out = append(out, append([]int(nil), cur...))
			return
		}
		for i := 0; i < n; i++ {
			if used[i] {
				continue
			}
			okay := true
			for j := 0; j < i; j++ {
				if !used[j] && spec.reqs[j].thread == spec.reqs[i].thread {
					okay = false
				}
			}
			if !okay {
				continue
			}
			used[i] = true
			rec(append(cur, i), used)
			used[i] = false
		}
	}
	rec(nil, make([]bool, n))
	return out
}

func c29Scenario(spec c29Spec) vScn {
	var serial map[string]bool
	var serialBad []vScnBad
	return vScn{name: spec.name, horizon: time.Minute, build: func() (func(), func(*vsched.Result) (string, []vScnBad)) {
		if serial == nil {
			serial = map[string]bool{}
			for _, ord := range c29Orders(spec) {
				root, run := c29Exec(spec, ord)
				res := vsched.Run(vsched.Options{Horizon: time.Minute}, root)
				if !run.done || len(res.Panics) > 0 {
					serialBad = append(serialBad, vScnBad{"serial-execution-fails", fmt.Sprintf("serial order %v did not complete: %s %v", ord, res.Summary(), res.Panics)})
					continue
				}
				serial[c29Outcome(spec, run)] = true
				for _, p := range run.probe {
					serialBad = append(serialBad, vScnBad{"post-state-disagrees-after-serial-run|" + strings.SplitN(p, "|", 2)[0], fmt.Sprintf("serial order %v: %s", ord, p)})
				}
			}
		}
		root, run := c29Exec(spec, nil)
		judge := func(res *vsched.Result) (string, []vScnBad) {
			bad := append([]vScnBad(nil), serialBad...)
			serialBad = nil
			for _, p := range res.Panics {
				bad = append(bad, vScnBad{"panic", p})
			}
			if run.w == nil {
				return "setup-failed", append(bad, vScnBad{"setup-failed", "scenario set-up did not complete"})
			}
			if b := vNamedBlocked(res, "req", "probe"); len(b) > 0 || !run.done {
				bad = append(bad, vScnBad{"requests-deadlock", fmt.Sprintf("threads blocked forever: %v (%s)", b, res.Summary())})
				return "deadlock", bad
			}
			out := c29Outcome(spec, run)
			for _, rq := range spec.reqs {
				rp := run.w.replies[rq.name]
				if rp == nil || rp.err != "" {
					bad = append(bad, vScnBad{"reply-malformed-or-missing", fmt.Sprintf("%s: %v", rq.name, rp)})
				}
			}
			if spec.strict && !serial[out] {
				var ss []string
				for s := range serial {
					ss = append(ss, s)
				}
				sort.Strings(ss)
				bad = append(bad, vScnBad{"not-equal-to-any-serial-execution", fmt.Sprintf("concurrent outcome\n    %s\n  matches none of the %d serial outcomes:\n    %s\n  trace: %s", out, len(ss), strings.Join(ss, "\n    "), run.w.trace())})
			}
			// weak clause: every reported state is one the object was in at some time
			for _, rq := range spec.reqs {
				o := run.obs[rq.name]
				if o == nil || !o.ok {
					continue
				}
				if rq.obj != "" {
					for _, sz := range o.sizes {
						found := false
						for _, t := range run.trees {
							if n, ok := t[rq.obj]; ok && uint64(n.Size) == sz {
								found = true
							}
						}
						if !found {
							bad = append(bad, vScnBad{"reply-reports-a-size-the-object-never-had", fmt.Sprintf("%s reported size %d for %s, which it never had", rq.name, sz, rq.obj)})
						}
					}
				}
				if rq.child != "" && rq.proc == wire.LOOKUP {
					p := strings.TrimSuffix(rq.dir, "/") + "/" + rq.child
					everThere, everAbsent := false, false
					for _, t := range run.trees {
						if _, ok := t[p]; ok {
							everThere = true
						} else {
							everAbsent = true
						}
					}
					if o.status == 0 && !everThere {
						bad = append(bad, vScnBad{"lookup-finds-a-name-that-never-existed", fmt.Sprintf("%s found %s", rq.name, p)})
					}
					if o.status == 2 && !everAbsent {
						bad = append(bad, vScnBad{"lookup-misses-a-name-that-always-existed", fmt.Sprintf("%s: NOENT for %s", rq.name, p)})
					}
				}
				if rq.dir != "" && (rq.proc == wire.READDIR || rq.proc == wire.READDIRPLUS) && o.status == 0 {
					for _, nm := range o.names {
						p := strings.TrimSuffix(rq.dir, "/") + "/" + nm
						ever := false
						for _, t := range run.trees {
							if _, ok := t[p]; ok {
								ever = true
							}
						}
						if !ever {
							bad = append(bad, vScnBad{"listing-shows-a-name-that-never-existed", fmt.Sprintf("%s listed %s", rq.name, p)})
						}
					}
					for p := range run.trees[0] {
						if parentOf(p) != rq.dir || p == "/" {
							continue
						}
						always := true
						for _, t := range run.trees {
							if _, ok := t[p]; !ok {
								always = false
							}
						}
						listed := false
						for _, nm := range o.names {
							if nm == baseOf(p) {
								listed = true
							}
						}
						if always && !listed {
							bad = append(bad, vScnBad{"listing-omits-a-name-that-always-existed", fmt.Sprintf("%s did not list %s", rq.name, p)})
						}
					}
				}
			}
			for _, p := range run.probe {
				bad = append(bad, vScnBad{"post-state-disagrees-with-backend|" + strings.SplitN(p, "|", 2)[0], strings.SplitN(p, "|", 2)[1] + "\n  trace: " + run.w.trace()})
			}
			short := out
			if i := strings.Index(out, " || "); i >= 0 {
				short = out[:i]
			}
			return short, bad
		}
		return root, judge
	}}
}

func c29Scenarios(thorough bool) []vScn {
	strict := ExportOptions{AttrCacheTimeout: 1, MaxWorkers: 2}
	cached := ExportOptions{AttrCacheTimeout: time.Hour, EnableDirCache: true, DirCacheTimeout: time.Hour, CacheNegativeLookups: true, NegativeCacheTimeout: time.Hour, MaxWorkers: 2}
	fh := func(p string) func(w *rqWorld) []byte {
		return func(w *rqWorld) []byte { var a wire.Enc; a.FH(w.h[p]); return a.B }
	}
	dirop := func(p, name string) func(w *rqWorld) []byte {
		return func(w *rqWorld) []byte { var a wire.Enc; a.FH(w.h[p]).Str(name); return a.B }
	}
	create := func(p, name string) func(w *rqWorld) []byte {
		return func(w *rqWorld) []byte {
			var a wire.Enc
			a.FH(w.h[p]).Str(name).U32(0).Sattr(wire.Sattr{Mode: wire.U32p(0644)})
			return a.B
		}
	}
	mkdir := func(p, name string) func(w *rqWorld) []byte {
		return func(w *rqWorld) []byte {
			var a wire.Enc
			a.FH(w.h[p]).Str(name).Sattr(wire.Sattr{Mode: wire.U32p(0755)})
			return a.B
		}
	}
	write := func(p string, off uint64, data string) func(w *rqWorld) []byte {
		return func(w *rqWorld) []byte { return writeArgs(w.h[p], off, data) }
	}
	read := func(p string, off uint64, n uint32) func(w *rqWorld) []byte {
		return func(w *rqWorld) []byte { var a wire.Enc; a.FH(w.h[p]).U64(off).U32(n); return a.B }
	}
	readdir := func(p string) func(w *rqWorld) []byte {
		return func(w *rqWorld) []byte { var a wire.Enc; a.FH(w.h[p]).U64(0).Raw(make([]byte, 8)).U32(4096); return a.B }
	}
	readdirplus := func(p string) func(w *rqWorld) []byte {
		return func(w *rqWorld) []byte {
			var a wire.Enc
			a.FH(w.h[p]).U64(0).Raw(make([]byte, 8)).U32(4096).U32(8192)
			return a.B
		}
	}
	truncate := func(p string, size uint64) func(w *rqWorld) []byte {
		return func(w *rqWorld) []byte { var a wire.Enc; a.FH(w.h[p]).Sattr(wire.Sattr{Size: wire.U64p(size)}).U32(0); return a.B }
	}
	rename := func(fd, fn, td, tn string) func(w *rqWorld) []byte {
		return func(w *rqWorld) []byte { var a wire.Enc; a.FH(w.h[fd]).Str(fn).FH(w.h[td]).Str(tn); return a.B }
	}
	lk := []string{"/f", "/d", "/d/x"}
	mkspec := func(name string, reqs ...c29Req) []c29Spec {
		return []c29Spec{{name: name + "-strict", opts: strict, strict: true, lookups: lk, reqs: reqs},
			{name: name + "-cached", opts: cached, strict: false, lookups: lk, reqs: reqs},
			{name: name + "-cached-cold", opts: cached, strict: false, cold: true, lookups: lk, reqs: reqs}}
	}
	var specs []c29Spec
	specs = append(specs, mkspec("write-write-read",
		c29Req{name: "w1", thread: 1, proc: wire.WRITE, args: write("/f", 0, "AB"), obj: "/f"},
		c29Req{name: "w2", thread: 2, proc: wire.WRITE, args: write("/f", 4, "EF"), obj: "/f"},
		c29Req{name: "r3", thread: 3, proc: wire.READ, args: read("/f", 0, 16), obj: "/f"})...)
	specs = append(specs, mkspec("extend-getattr-getattr",
		c29Req{name: "w1", thread: 1, proc: wire.WRITE, args: write("/f", 4, "EF"), obj: "/f"},
		c29Req{name: "g2", thread: 2, proc: wire.GETATTR, args: fh("/f"), obj: "/f"},
		c29Req{name: "l3", thread: 3, proc: wire.LOOKUP, args: dirop("/", "f"), obj: "/f", dir: "/", child: "f"})...)
	specs = append(specs, mkspec("create-create-readdirplus",
		c29Req{name: "c1", thread: 1, proc: wire.CREATE, args: create("/d", "a"), dir: "/d", child: "a"},
		c29Req{name: "c2", thread: 2, proc: wire.CREATE, args: create("/d", "b"), dir: "/d", child: "b"},
		c29Req{name: "p3", thread: 3, proc: wire.READDIRPLUS, args: readdirplus("/d"), dir: "/d"})...)
	specs = append(specs, mkspec("mkdir-lookup-lookup",
		c29Req{name: "m1", thread: 1, proc: wire.MKDIR, args: mkdir("/d", "m"), dir: "/d", child: "m"},
		c29Req{name: "l2", thread: 2, proc: wire.LOOKUP, args: dirop("/d", "m"), dir: "/d", child: "m"},
		c29Req{name: "l3", thread: 3, proc: wire.LOOKUP, args: dirop("/d", "x"), obj: "/d/x", dir: "/d", child: "x"})...)
	specs = append(specs, mkspec("remove-rename-readdir",
		c29Req{name: "u1", thread: 1, proc: wire.REMOVE, args: dirop("/d", "x"), dir: "/d", child: "x"},
		c29Req{name: "n2", thread: 2, proc: wire.RENAME, args: rename("/", "f", "/d", "g"), dir: "/d", child: "g"},
		c29Req{name: "d3", thread: 3, proc: wire.READDIR, args: readdir("/d"), dir: "/d"})...)
	specs = append(specs, mkspec("truncate-read-getattr",
		c29Req{name: "t1", thread: 1, proc: wire.SETATTR, args: truncate("/f", 2), obj: "/f"},
		c29Req{name: "r2", thread: 2, proc: wire.READ, args: read("/f", 0, 16), obj: "/f"},
		c29Req{name: "g3", thread: 3, proc: wire.GETATTR, args: fh("/f"), obj: "/f"})...)
	if thorough {
		specs = append(specs, mkspec("lookup-remove-then-lookup",
			c29Req{name: "l1", thread: 1, proc: wire.LOOKUP, args: dirop("/d", "y"), obj: "/d/y", dir: "/d", child: "y"},
			c29Req{name: "u2", thread: 2, proc: wire.REMOVE, args: dirop("/d", "y"), dir: "/d", child: "y"},
			c29Req{name: "l2", thread: 2, proc: wire.LOOKUP, args: dirop("/d", "y"), dir: "/d", child: "y"})...)
		specs = append(specs, mkspec("two-lookups-same-new-handle",
			c29Req{name: "l1", thread: 1, proc: wire.LOOKUP, args: dirop("/d", "y"), obj: "/d/y", dir: "/d", child: "y"},
			c29Req{name: "l2", thread: 2, proc: wire.LOOKUP, args: dirop("/d", "y"), obj: "/d/y", dir: "/d", child: "y"},
			c29Req{name: "p3", thread: 3, proc: wire.READDIRPLUS, args: readdirplus("/d"), dir: "/d"})...)
		specs = append(specs, mkspec("same-name-create-create-lookup",
			c29Req{name: "c1", thread: 1, proc: wire.CREATE, args: create("/d", "a"), dir: "/d", child: "a"},
			c29Req{name: "c2", thread: 2, proc: wire.CREATE, args: create("/d", "a"), dir: "/d", child: "a"},
			c29Req{name: "l3", thread: 3, proc: wire.LOOKUP, args: dirop("/d", "a"), dir: "/d", child: "a"})...)
		specs = append(specs, mkspec("same-name-mkdir-mkdir-remove",
			c29Req{name: "m1", thread: 1, proc: wire.MKDIR, args: mkdir("/d", "m"), dir: "/d", child: "m"},
			c29Req{name: "m2", thread: 2, proc: wire.MKDIR, args: mkdir("/d", "m"), dir: "/d", child: "m"},
			c29Req{name: "u3", thread: 3, proc: wire.REMOVE, args: dirop("/d", "x"), dir: "/d", child: "x"})...)
		specs = append(specs, mkspec("write-truncate-write",
			c29Req{name: "w1", thread: 1, proc: wire.WRITE, args: write("/f", 2, "CD"), obj: "/f"},
			c29Req{name: "t2", thread: 2, proc: wire.SETATTR, args: truncate("/f", 1), obj: "/f"},
			c29Req{name: "g2", thread: 2, proc: wire.GETATTR, args: fh("/f"), obj: "/f"})...)
	}
	var out []vScn
	for _, sp := range specs {
		out = append(out, c29Scenario(sp))
	}
	return out
}
