package absnfs

// C14.conc — the "schedules" side of C14: replies produced while a policy update drains
// or swaps, and replies of concurrent requests, decoded strictly. Reuses the C16 and
// C29 scenarios and keeps only the reply-shape verdicts.

import (
	"encoding/json"
	"strings"
	"time"

	"github.com/absfs/absnfs/internal/verif/vsched"
)

func c14ConcScenarios(thorough bool) []vScn {
	var out []vScn
	wrap := func(scn vScn) vScn {
		inner := scn.build
		scn.build = func() (func(), func(*vsched.Result) (string, []vScnBad)) {
			root, judge := inner()
			return root, func(res *vsched.Result) (string, []vScnBad) {
				outcome, bad := judge(res)
				var keep []vScnBad
				for _, b := range bad {
					if b.sig == "reply-malformed-or-missing" || b.sig == "panic" || b.sig == "setup-failed" {
						keep = append(keep, b)
					}
				}
				return outcome, keep
			}
		}
		return scn
	}
	for _, scn := range c16Scenarios(thorough) {
		if strings.HasPrefix(scn.name, "S5-") {
			continue
		}
		out = append(out, wrap(scn))
	}
	for _, scn := range c29Scenarios(thorough) {
		if strings.HasSuffix(scn.name, "-cached") { // the strict and cold regimes exercise the same reply paths
			continue
		}
		if !thorough && strings.HasSuffix(scn.name, "-cold") {
			continue
		}
		out = append(out, wrap(scn))
	}
	return out
}

func init() {
	vRegister(&vCheck{
		id: "C14.conc", level: "model_checking", flavour: "sched",
		shards: func(string) int { return 16 },
		rule: "stateless model checking (controlled scheduler, source-instrumented server): the request-vs-policy-update scenarios of C16 (replies produced while an update drains and swaps, incl. early request timeouts) and the three-client request histories of C29 (minimal-TTL regime; thorough adds the cold-cache regime); every choice sequence within D-bound 2 (thorough D-bound 3, P-bound 2); every reply of every execution must parse as an RFC 1831 reply echoing its xid and decode exactly as the RFC 1813 result of its procedure and status.",
		assumptions: []string{"scheduling points are the synchronisation operations of the instrumented package plus every backend call"},
		run: func(c *vCtx) {
			vSchedRunBudget(c, "C14", c14ConcScenarios(c.thorough()), []vPlan{{"D", 2}}, []vPlan{{"D", 3}, {"P", 2}}, 20*time.Minute)
		},
		replay:      func(c *vCtx, raw json.RawMessage) { vSchedReplay(c, "C14", c14ConcScenarios(true), raw) },
	})
}
