package absnfs

// C08 — a read-only export is never modified.
// Product of every procedure x argument shape x credential x way of
// establishing the read-only policy x preceding read procedure; the oracle is
// the recording backend's mutation log plus the reply status.

import (
	"encoding/json"
	"fmt"
	"strings"

	"github.com/absfs/absnfs/internal/verif/recfs"
	"github.com/absfs/absnfs/internal/verif/wire"
)

type c08Case struct {
	How   string `json:"how"`  // construction | policy | export
	Cred  string `json:"cred"` // none | root | user
	Prime string `json:"prime"`
	Prog  uint32 `json:"prog"`
	Proc  uint32 `json:"proc"`
	Shape string `json:"shape"`
}

var c08Mutating = map[uint32]bool{wire.SETATTR: true, wire.WRITE: true, wire.CREATE: true, wire.MKDIR: true, wire.SYMLINK: true,
	wire.MKNOD: true, wire.REMOVE: true, wire.RMDIR: true, wire.RENAME: true, wire.LINK: true, wire.COMMIT: true}

func c08Setup(how string) *c14World {
	opts := ExportOptions{AttrCacheTimeout: 1, TransferSize: 65536, EnableDirCache: true, CacheNegativeLookups: true}
	if how == "construction" {
		opts.ReadOnly = true
	}
	e, err := vNewEnv(opts, func(fs *recfs.FS) {
		vMust(fs.Mkdir("/d", 0o755), "mkdir")
		f, err := fs.Create("/f")
		vMust(err, "create")
		f.Write([]byte("hello world"))
		f.Close()
		f, _ = fs.Create("/d/f")
		f.Close()
		vMust(fs.Symlink("f", "/l"), "symlink")
	})
	vMust(err, "env")
	w := &c14World{e: e, nx: 0xdead0001}
	alloc := func(p string) uint64 {
		n, err := e.nfs.Lookup(p)
		vMust(err, "lookup "+p)
		return e.nfs.fileMap.Allocate(n)
	}
	w.root, w.dir, w.file, w.link = alloc("/"), alloc("/d"), alloc("/f"), alloc("/l")
	switch how {
	case "policy":
		p := *e.nfs.policy.Load()
		p.ReadOnly = true
		vMust(e.nfs.UpdatePolicyOptions(p), "UpdatePolicyOptions")
	case "export":
		o := e.nfs.GetExportOptions()
		o.ReadOnly = true
		vMust(e.nfs.UpdateExportOptions(o), "UpdateExportOptions")
	}
	return w
}

func c08One(c *vCtx, cs c08Case) {
	c.beat(func() any { return cs })
	c.res.Evaluations++
	w := c08Setup(cs.How)
	defer w.e.close()
	switch cs.Cred {
	case "none":
		w.e.cred = vCredNone
	case "root":
		w.e.cred = vCredSys(0, 0, nil)
	default:
		w.e.cred = vCredSys(1000, 1000, []uint32{0})
	}
	switch cs.Prime {
	case "lookup":
		w.e.lookup(w.root, "f")
		w.e.lookup(w.root, "missing")
	case "readdirplus":
		var a wire.Enc
		a.FH(w.root).U64(0).Raw(make([]byte, 8)).U32(4096).U32(8192)
		w.e.nfsCall(wire.READDIRPLUS, a.B)
	case "getattr":
		var a wire.Enc
		a.FH(w.file)
		w.e.nfsCall(wire.GETATTR, a.B)
	}
	before := w.e.fs.DumpString()
	from := w.e.fs.LogLen()
	args := w.args(cs.Prog, cs.Proc, cs.Shape)
	pname := wire.ProcName(cs.Proc)
	if cs.Prog == wire.ProgMount {
		pname = fmt.Sprintf("MOUNT%d", cs.Proc)
	}
	rp, _, err := w.e.call(cs.Prog, 3, cs.Proc, args)
	muts := w.e.fs.Mutations(from)
	if len(muts) > 0 {
		var names []string
		for _, m := range muts {
			names = append(names, m.String())
		}
		c.violation(fmt.Sprintf("C08|backend-modified|proc=%s|op=%s", pname, muts[0].Name),
			fmt.Sprintf("read-only (%s), %s args %s cred %s after %s: backend received %s", cs.How, pname, cs.Shape, cs.Cred, cs.Prime, strings.Join(names, " ")), cs)
	}
	if after := w.e.fs.DumpString(); after != before {
		c.violation(fmt.Sprintf("C08|tree-changed|proc=%s", pname),
			fmt.Sprintf("read-only (%s), %s args %s: backend tree changed\nbefore:\n%safter:\n%s", cs.How, pname, cs.Shape, before, after), cs)
	}
	if err != nil || rp == nil || rp.Denied || rp.AcceptStat != 0 || cs.Prog != wire.ProgNFS {
		c.outcome("no-nfs-result")
		return
	}
	res, derr := wire.DecodeNFS(cs.Proc, rp.Result)
	if res == nil {
		return
	}
	_ = derr // well-formedness is C14's business
	if c08Mutating[cs.Proc] && res.Status == 0 {
		c.violation(fmt.Sprintf("C08|mutating-procedure-succeeds|proc=%s", pname),
			fmt.Sprintf("read-only (%s): %s with args %s replied NFS3_OK", cs.How, pname, cs.Shape), cs)
	}
	if cs.Proc == wire.ACCESS && res.Status == 0 && res.Access&(4|8|16) != 0 {
		c.violation("C08|access-grants-write-bits",
			fmt.Sprintf("read-only (%s): ACCESS args %s cred %s granted %#x", cs.How, cs.Shape, cs.Cred, res.Access), cs)
	}
	c.outcome(pname + ":" + wire.StatName(res.Status))
}

func init() {
	vRegister(&vCheck{
		id: "C08", level: "exploration", flavour: "vtime", also: []string{"C08.conc"},
		shards:      func(string) int { return 16 },
		rule:        "complete product: all 22 NFSv3 procedures and MOUNT 0..5 x argument shapes {well-formed for every (directory-slot, object-slot) handle kind and 7 name kinds, every byte-prefix, every word replaced by 0/1/0xFFFFFFFF} x credentials {AUTH_NONE, AUTH_SYS uid 0, AUTH_SYS uid 1000 with aux gid 0} x read-only established {at construction, UpdatePolicyOptions, UpdateExportOptions} x preceding read procedure {none, LOOKUP hit+miss, READDIRPLUS, GETATTR} (caches on). Each case on a fresh instance; oracle: no modifying backend call in the recording backend's log, backend tree dump unchanged, mutating procedures never reply NFS3_OK, ACCESS grants no MODIFY/EXTEND/DELETE. Quick restricts corrupted-word shapes to credential uid 0 and the priming to {none, lookup}.",
		assumptions: []string{"modifying operations are those flagged by the recording backend: write-mode/creating opens, Write/WriteAt, Truncate, Create, Remove(All), Rename, Mkdir(All), Symlink, Chmod, Chown, Lchown, Chtimes"},
		run: func(c *vCtx) {
			idx := 0
			type pp struct{ prog, proc uint32 }
			var procs []pp
			for p := uint32(0); p <= 21; p++ {
				procs = append(procs, pp{wire.ProgNFS, p})
			}
			for p := uint32(0); p <= 5; p++ {
				procs = append(procs, pp{wire.ProgMount, p})
			}
			primes := []string{"none", "lookup"}
			if c.thorough() {
				primes = []string{"none", "lookup", "readdirplus", "getattr"}
			}
			for _, how := range []string{"construction", "policy", "export"} {
				for _, cred := range []string{"root", "user", "none"} {
					for _, prime := range primes {
						for _, p := range procs {
							for _, sh := range c14Shapes(p.prog, p.proc, false) {
								if !c.thorough() && strings.HasPrefix(sh, "word:") && (cred != "root" || prime != "none") {
									continue
								}
								if !c.thorough() && strings.HasPrefix(sh, "prefix:") && prime != "none" {
									continue
								}
								idx++
								if !c.mine(idx) {
									continue
								}
								cs := c08Case{How: how, Cred: cred, Prime: prime, Prog: p.prog, Proc: p.proc, Shape: sh}
								c08One(c, cs)
								c.res.Distinct++
								if idx%997 == 0 {
									c.sample(cs)
								}
							}
						}
					}
				}
			}
			c.res.Bounds["cases_total"] = idx
		},
		replay: func(c *vCtx, raw json.RawMessage) {
			var cs c08Case
			vMust(json.Unmarshal(raw, &cs), "case")
			c08One(c, cs)
		},
	})
}
