#!/usr/bin/env python3
"""Regenerates /verif/MANIFEST.json from scripts/checks.json (one record per claimed property)."""
import json, os
V = os.path.dirname(os.path.dirname(os.path.abspath(__file__)))
checks = json.load(open(os.path.join(V, "scripts", "checks.json")))
props = [json.loads(l) for l in open(os.path.join(V, "properties.jsonl")) if l.strip()]
claimed = {c["property_id"] for c in checks["checks"]}
na = []
for p in props:
    if p["id"] not in claimed:
        na.append({"property_id": p["id"], "reason": checks.get("not_applicable", {}).get(p["id"], "check not built yet (work in progress; see DESIGN.md section 5 for the planned model-checking approach)")})
out_checks = []
for c in checks["checks"]:
    pid = c["property_id"]
    out_checks.append({
        "property_id": pid,
        "quick_cmd": f"bin/vcheck {pid} --tier quick",
        "thorough_cmd": f"bin/vcheck {pid} --tier thorough",
        "evidence_file": f"/verif/evidence/{pid}.json",
        "replay_cmd_template": "bin/vcheck replay {path}",
        "engine": c["engine"],
        "level_claimed": {"category": c["level"], "text": c["text"], "design_ref": f"DESIGN.md section 5, {pid}"},
        "level_note": c["note"],
        "technique": c["technique"],
    })
m = {
    "version": 1,
    "setup_cmd": "cd /verif && GOFLAGS=-mod=mod GOPROXY=off GOSUMDB=off GOTOOLCHAIN=local go build -o bin/vcheck ./cmd/vcheck && bin/vcheck warm",
    "hooks": {
        "guard": "verif-overlay (no in-tree hooks: instrumentation is a go build -overlay generated from /repo's working tree at check time)",
        "enable": "bin/vcheck generates build/ov-<flavour>-*/overlay.json (time/sync/atomic/channel shims, harness files as package absnfs, virtual cmd/zzverif) and runs `go build -overlay` inside /repo; /repo itself is never edited",
        "baseline_off_cmd": "cd /repo && GOFLAGS=-mod=mod GOPROXY=off GOSUMDB=off go test -vet=off -count=1 -timeout 25m ./...",
        "source_commits": [],
        "add_only": True,
    },
    "engines": checks["engines"],
    "checks": out_checks,
    "notes": checks.get("notes", ""),
    "not_applicable": na,
}
json.dump(m, open(os.path.join(V, "MANIFEST.json"), "w"), indent=1)
print("claimed", len(out_checks), "not claimed", len(na))
