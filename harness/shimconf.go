package absnfs

// SHIM — tool self-test, not a property: see shimconf_sched.go.

func init() {
	vRegister(&vCheck{
		id: "SHIM", level: "exploration", flavour: "sched",
		shards: func(string) int { return 8 },
		rule: "conformance of the scheduler's RWMutex shim with sync.RWMutex: for every combination of 2 (and selected combinations of 3) thread programs over one RWMutex from {Lock/Unlock, RLock/RUnlock, recursive RLock, TryLock, TryRLock, Lock/Unlock+TryRLock, RLock/RUnlock+TryLock} the set of outcomes reachable under the shim (all schedules) must contain every outcome observed with the real primitive on real goroutines (300 runs, thorough 3000, with injected yields; 'deadlock' = still blocked after 3 s).",
		assumptions: []string{"the real side is sampled; this is a self-test of the tool, not a check of absnfs"},
		run:         func(c *vCtx) { shimConformance(c); c.res.Exhaustive = false },
	})
}
