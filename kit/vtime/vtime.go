// Package vtime is the virtual-clock stand-in for package time used by the
// vtime build flavour: every non-test file of package absnfs imports it under
// the name "time". Now/Since/Until read a clock owned by the harness; every
// other identifier is passed through to the real package.
package vtime

import (
	"sync/atomic"
	"time"
)

type (
	Time     = time.Time
	Duration = time.Duration
	Timer    = time.Timer
	Ticker   = time.Ticker
	Month    = time.Month
	Weekday  = time.Weekday
	Location = time.Location
)

const (
	Nanosecond  = time.Nanosecond
	Microsecond = time.Microsecond
	Millisecond = time.Millisecond
	Second      = time.Second
	Minute      = time.Minute
	Hour        = time.Hour

	RFC3339     = time.RFC3339
	RFC3339Nano = time.RFC3339Nano
	RFC1123     = time.RFC1123
	Kitchen     = time.Kitchen
)

var (
	UTC   = time.UTC
	Local = time.Local
)

// virtual clock: nanoseconds since base; enabled unless Real(true) was called.
var (
	base    = time.Date(2030, 1, 1, 0, 0, 0, 0, time.UTC)
	offset  atomic.Int64
	useReal atomic.Bool
)

// Virtual reports whether this build has a virtual clock (always true here).
func Virtual() bool { return true }

func Real(on bool)       { useReal.Store(on) }
func Set(d Duration)     { offset.Store(int64(d)) }
func Advance(d Duration) { offset.Add(int64(d)) }
func Offset() Duration   { return Duration(offset.Load()) }

func Now() Time {
	if useReal.Load() {
		return time.Now()
	}
	return base.Add(Duration(offset.Load()))
}
func Since(t Time) Duration { return Now().Sub(t) }
func Until(t Time) Duration { return t.Sub(Now()) }

func After(d Duration) <-chan Time             { return time.After(d) }
func AfterFunc(d Duration, f func()) *Timer    { return time.AfterFunc(d, f) }
func NewTimer(d Duration) *Timer               { return time.NewTimer(d) }
func NewTicker(d Duration) *Ticker             { return time.NewTicker(d) }
func Sleep(d Duration)                         { time.Sleep(d) }
func Tick(d Duration) <-chan Time              { return time.Tick(d) }
func Unix(sec, nsec int64) Time                { return time.Unix(sec, nsec) }
func UnixMilli(ms int64) Time                  { return time.UnixMilli(ms) }
func UnixMicro(us int64) Time                  { return time.UnixMicro(us) }
func ParseDuration(s string) (Duration, error) { return time.ParseDuration(s) }
func Parse(layout, value string) (Time, error) { return time.Parse(layout, value) }
func Date(year int, month Month, day, hour, min, sec, nsec int, loc *Location) Time {
	return time.Date(year, month, day, hour, min, sec, nsec, loc)
}
func FixedZone(name string, offset int) *Location { return time.FixedZone(name, offset) }
func LoadLocation(name string) (*Location, error) { return time.LoadLocation(name) }
