package absnfs

// Harness environment: a fresh recfs + AbsfsNFS + Server + handler, driven
// through the real decode -> HandleCall -> encode path and read back with the
// independent wire kit.

import (
	"bytes"
	"fmt"
	"io"
	"log"
	"os"
	"time"

	"github.com/absfs/absfs"
	"github.com/absfs/absnfs/internal/verif/recfs"
	"github.com/absfs/absnfs/internal/verif/vtime"
	"github.com/absfs/absnfs/internal/verif/wire"
)

type vEnv struct {
	fs     *recfs.FS
	nfs    *AbsfsNFS
	srv    *Server
	h      *NFSProcedureHandler
	xid    uint32
	ip     string
	port   int
	cred   wire.Cred
	tick   time.Duration // virtual clock advance before each call
	lastRq []byte
}

var vLongTimeouts = func() *TimeoutConfig {
	h := time.Hour
	return &TimeoutConfig{ReadTimeout: h, WriteTimeout: h, LookupTimeout: h, ReaddirTimeout: h, CreateTimeout: h,
		RemoveTimeout: h, RenameTimeout: h, HandleTimeout: h, DefaultTimeout: h}
}

// vNewEnv builds an instance. opts.MaxWorkers defaults to 1, timeouts to 1h.
func vNewEnv(opts ExportOptions, setup func(fs *recfs.FS)) (*vEnv, error) {
	fs := recfs.New()
	if setup != nil {
		fs.NoLog = true
		setup(fs)
		fs.NoLog = false
	}
	return vNewEnvOn(fs, opts)
}

func vNewEnvOn(fs *recfs.FS, opts ExportOptions) (*vEnv, error) {
	if opts.MaxWorkers <= 0 {
		opts.MaxWorkers = 1
	}
	if opts.Timeouts == nil {
		opts.Timeouts = vLongTimeouts()
	}
	saved := os.Stderr
	_ = saved
	nfs, err := New(fs, opts)
	if err != nil {
		return nil, err
	}
	nfs.logger = log.New(io.Discard, "", 0)
	srv, err := NewServer(ServerOptions{})
	if err != nil {
		return nil, err
	}
	srv.logger = log.New(io.Discard, "", 0)
	srv.SetHandler(nfs)
	e := &vEnv{fs: fs, nfs: nfs, srv: srv, h: &NFSProcedureHandler{server: srv}, xid: 100,
		ip: "10.0.0.1", port: 1000, cred: wire.Cred{Flavor: 1, Body: wire.AuthSys(1, "c", 0, 0, nil)}, tick: time.Second}
	return e, nil
}

func (e *vEnv) close() {
	e.srv.cancel()
	e.nfs.Close()
}

func vCredSys(uid, gid uint32, aux []uint32) wire.Cred {
	return wire.Cred{Flavor: 1, Body: wire.AuthSys(7, "host", uid, gid, aux)}
}

var vCredNone = wire.Cred{Flavor: 0}

// rawCall runs one RPC message through the real decoder, HandleCall and the
// real encoder. It returns the reply bytes; err != nil means HandleCall
// returned an error (the connection loop would drop the connection) or the
// call did not decode.
func (e *vEnv) rawCall(msg []byte) ([]byte, error) {
	if verifFlavour == "vtime" && e.tick > 0 {
		vtime.Advance(e.tick)
	}
	e.lastRq = msg
	rd := bytes.NewReader(msg)
	call, err := DecodeRPCCall(rd)
	if err != nil {
		return nil, fmt.Errorf("decode: %w", err)
	}
	body := bytes.NewReader(msg[len(msg)-rd.Len():])
	authCtx := &AuthContext{Credential: &call.Credential, ClientIP: e.ip, ClientPort: e.port}
	reply, err := e.h.HandleCall(call, body, authCtx)
	if err != nil {
		return nil, fmt.Errorf("handle: %w", err)
	}
	var buf bytes.Buffer
	if err := EncodeRPCReply(&buf, reply); err != nil {
		return nil, fmt.Errorf("encode: %w", err)
	}
	return buf.Bytes(), nil
}

// rawCallNoTick is rawCall without touching any shared harness state (concurrent callers).
func (e *vEnv) rawCallNoTick(msg []byte) ([]byte, error) {
	rd := bytes.NewReader(msg)
	call, err := DecodeRPCCall(rd)
	if err != nil {
		return nil, fmt.Errorf("decode: %w", err)
	}
	body := bytes.NewReader(msg[len(msg)-rd.Len():])
	authCtx := &AuthContext{Credential: &call.Credential, ClientIP: e.ip, ClientPort: e.port}
	reply, err := e.h.HandleCall(call, body, authCtx)
	if err != nil {
		return nil, fmt.Errorf("handle: %w", err)
	}
	var buf bytes.Buffer
	if err := EncodeRPCReply(&buf, reply); err != nil {
		return nil, fmt.Errorf("encode: %w", err)
	}
	return buf.Bytes(), nil
}

// call sends (prog, vers, proc, args) with the environment's credential.
func (e *vEnv) call(prog, vers, proc uint32, args []byte) (*wire.Reply, uint32, error) {
	e.xid++
	xid := e.xid
	rb, err := e.rawCall(wire.Call(xid, prog, vers, proc, e.cred, args))
	if err != nil {
		return nil, xid, err
	}
	rp, err := wire.ParseReply(rb)
	if err != nil {
		return nil, xid, fmt.Errorf("reply does not parse: %w (% x)", err, rb)
	}
	if rp.Xid != xid {
		return rp, xid, fmt.Errorf("reply xid %d, call xid %d", rp.Xid, xid)
	}
	return rp, xid, nil
}

// nfsCall performs an NFSv3 procedure and decodes its result strictly.
// A reply that is not MSG_ACCEPTED/SUCCESS yields res == nil with the reply.
func (e *vEnv) nfsCall(proc uint32, args []byte) (*wire.NFSRes, *wire.Reply, error) {
	rp, _, err := e.call(wire.ProgNFS, 3, proc, args)
	if err != nil {
		return nil, rp, err
	}
	if rp.Denied || rp.AcceptStat != 0 {
		return nil, rp, nil
	}
	res, err := wire.DecodeNFS(proc, rp.Result)
	return res, rp, err
}

// mnt mounts a path and returns the root handle.
func (e *vEnv) mnt(p string) (uint64, error) {
	var a wire.Enc
	a.Str(p)
	rp, _, err := e.call(wire.ProgMount, 3, 1, a.B)
	if err != nil {
		return 0, err
	}
	if rp.Denied || rp.AcceptStat != 0 {
		return 0, fmt.Errorf("MNT not accepted: denied=%v accept_stat=%d", rp.Denied, rp.AcceptStat)
	}
	m, err := wire.DecodeMount(1, rp.Result)
	if err != nil {
		return 0, err
	}
	if m.Status != 0 {
		return 0, fmt.Errorf("MNT status %d", m.Status)
	}
	h, ok := wire.FHVal(m.FH)
	if !ok {
		return 0, fmt.Errorf("MNT handle of %d bytes", len(m.FH))
	}
	return h, nil
}

func (e *vEnv) lookup(dir uint64, name string) (*wire.NFSRes, error) {
	var a wire.Enc
	a.FH(dir).Str(name)
	res, rp, err := e.nfsCall(wire.LOOKUP, a.B)
	if err != nil {
		return res, err
	}
	if res == nil {
		return nil, fmt.Errorf("LOOKUP not accepted (denied=%v accept=%d)", rp.Denied, rp.AcceptStat)
	}
	return res, nil
}

// lookupFH returns the handle for name in dir or an error.
func (e *vEnv) lookupFH(dir uint64, name string) (uint64, error) {
	res, err := e.lookup(dir, name)
	if err != nil {
		return 0, err
	}
	if res.Status != 0 {
		return 0, fmt.Errorf("LOOKUP %q: %s", name, wire.StatName(res.Status))
	}
	h, ok := wire.FHVal(res.FH)
	if !ok {
		return 0, fmt.Errorf("LOOKUP handle of %d bytes", len(res.FH))
	}
	return h, nil
}

// must helpers for set-up code: set-up failures are infrastructure errors.
func vMust(err error, what string) {
	if err != nil {
		fmt.Fprintf(os.Stderr, "harness set-up failed: %s: %v\n", what, err)
		os.Exit(2)
	}
}

// unixToGoMode converts a 12-bit UNIX mode to os.FileMode permission+special bits.
func unixToGoMode(m uint32) os.FileMode {
	fm := os.FileMode(m & 0o777)
	if m&0o4000 != 0 {
		fm |= os.ModeSetuid
	}
	if m&0o2000 != 0 {
		fm |= os.ModeSetgid
	}
	if m&0o1000 != 0 {
		fm |= os.ModeSticky
	}
	return fm
}

// absfsFile is the element type of FileHandleMap.handles.
type absfsFile = absfs.File
