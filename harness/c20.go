package absnfs

// C20 — worker pool: bounded concurrency and every accepted task resolved exactly once.
// Stateless model checking (vsched) of Submit / SubmitWait / ExecuteWithWorker /
// Stop / Resize on the real, instrumented WorkerPool.

import (
	"encoding/json"
	"fmt"
	"io"
	"log"
	"sort"
	"strings"
	"time"

	"github.com/absfs/absnfs/internal/verif/vsched"
)

type c20Task struct {
	name     string
	runs     int  // executions of the task body
	inPool   int  // executions by a pool worker
	returned bool // the submitter got its answer
	ok       bool
	result   any
}

func c20Scenario(name string, size int, submitters int, viaExecute bool, stopper string, resizeTo int) vScn {
	return vScn{name: name, horizon: time.Second, build: func() (func(), func(*vsched.Result) (string, []vScnBad)) {
		var tasks []*c20Task
		running, maxRunning := 0, 0
		runningAfter, maxRunningAfter := 0, 0 // tasks that started after Resize had returned
		sizeLimit := size
		if resizeTo > sizeLimit {
			sizeLimit = resizeTo
		}
		var stopDone, resizeDone bool
		root := func() {
			nfs := &AbsfsNFS{logger: log.New(io.Discard, "", 0)}
			pool := NewWorkerPool(size, nfs)
			nfs.workerPool = pool
			pool.Start()
			for i := 0; i < submitters; i++ {
				t := &c20Task{name: fmt.Sprintf("task%d", i)}
				tasks = append(tasks, t)
				body := func() interface{} {
					t.runs++
					inPool := !strings.HasPrefix(vsched.CurrentName(), "submit") // not the submitter's own fallback run
					after := false
					if inPool {
						t.inPool++
						running++
						if running > maxRunning {
							maxRunning = running
						}
						if resizeDone {
							after = true
							runningAfter++
							if runningAfter > maxRunningAfter {
								maxRunningAfter = runningAfter
							}
						}
					}
					vsched.Yield() // the task takes time: other threads may run meanwhile
					if inPool {
						running--
						if after {
							runningAfter--
						}
					}
					return t.name
				}
				vsched.GoNamed("submit", func() {
					if viaExecute {
						t.result = nfs.ExecuteWithWorker(body)
						t.ok = true
					} else {
						t.result, t.ok = pool.SubmitWait(body)
					}
					t.returned = true
				})
			}
			switch stopper {
			case "stop":
				vsched.GoNamed("stopper", func() { pool.Stop(); stopDone = true })
			case "resize":
				vsched.GoNamed("resizer", func() { pool.Resize(resizeTo); resizeDone = true })
			case "resize+stop":
				vsched.GoNamed("resizer", func() { pool.Resize(resizeTo); resizeDone = true })
				vsched.GoNamed("stopper", func() { pool.Stop(); stopDone = true })
			}
		}
		judge := func(res *vsched.Result) (string, []vScnBad) {
			var bad []vScnBad
			var parts []string
			for _, p := range res.Panics {
				bad = append(bad, vScnBad{"panic", "a thread panicked: " + p})
			}
			if blocked := vNamedBlocked(res, "submit"); len(blocked) > 0 {
				bad = append(bad, vScnBad{"submitter-waits-forever", fmt.Sprintf("submitters still blocked when nothing else can run: %v", blocked)})
			}
			if blocked := vNamedBlocked(res, "stopper", "resizer"); len(blocked) > 0 {
				bad = append(bad, vScnBad{"stop-or-resize-never-returns", fmt.Sprintf("%v", blocked)})
			}
			if resizeTo > 0 && maxRunningAfter > resizeTo {
				bad = append(bad, vScnBad{"more-tasks-running-than-new-pool-size-after-resize", fmt.Sprintf("%d tasks that started after Resize(%d) had returned ran concurrently (old size %d)", maxRunningAfter, resizeTo, size)})
			}
			if maxRunning > sizeLimit {
				bad = append(bad, vScnBad{"more-tasks-running-than-pool-size", fmt.Sprintf("%d tasks ran concurrently with pool size %d (resize target %d)", maxRunning, size, resizeTo)})
			}
			for _, t := range tasks {
				state := "pending"
				switch {
				case !t.returned:
					state = "blocked"
				case t.ok && t.result == nil:
					state = "nil-result-with-ok"
					bad = append(bad, vScnBad{"accepted-task-gets-nil-result", fmt.Sprintf("%s: submitter was told ok=true with a nil result (task ran %d times)", t.name, t.runs)})
				case t.ok && t.runs == 1 && t.result == t.name:
					state = "done"
				case t.ok && t.runs != 1:
					state = fmt.Sprintf("ran-%d-times", t.runs)
					bad = append(bad, vScnBad{fmt.Sprintf("task-executed-%d-times", t.runs), fmt.Sprintf("%s: ok=true but the task body ran %d times", t.name, t.runs)})
				case !t.ok && t.runs == 0:
					state = "refused"
				case !t.ok && t.runs > 0:
					state = "refused-but-ran"
					bad = append(bad, vScnBad{"refused-task-was-executed", fmt.Sprintf("%s: submitter was told the task was not executed (ok=false) but it ran %d times: running it itself would execute it twice", t.name, t.runs)})
				default:
					state = fmt.Sprintf("odd(ok=%v,runs=%d,res=%v)", t.ok, t.runs, t.result)
					bad = append(bad, vScnBad{"wrong-result-delivered", fmt.Sprintf("%s: ok=%v runs=%d result=%v", t.name, t.ok, t.runs, t.result)})
				}
				parts = append(parts, state)
			}
			sort.Strings(parts)
			out := strings.Join(parts, ",")
			if stopper != "" {
				out += fmt.Sprintf("|stop=%v,resize=%v", stopDone, resizeDone)
			}
			return out, bad
		}
		return root, judge
	}}
}

func c20Capped(s vScn, d int) vScn { s.capD = d; return s }

func c20Scenarios(thorough bool) []vScn {
	s := []vScn{
		c20Scenario("pool1-2submit-stop", 1, 2, false, "stop", 0),
		c20Scenario("pool1-2execute-stop", 1, 2, true, "stop", 0),
		c20Scenario("pool1-3submit", 1, 3, false, "", 0),
		c20Scenario("pool1-2submit-grow2", 1, 2, false, "resize", 2),
		c20Scenario("pool2-2submit-shrink1", 2, 2, false, "resize", 1),
		c20Scenario("pool1-2submit-grow2-stop", 1, 2, false, "resize+stop", 2),
		c20Capped(c20Scenario("pool2-3submit-shrink1", 2, 3, false, "resize", 1), 2),
	}
	if thorough {
		s = append(s, c20Scenario("pool2-3submit-stop", 2, 3, false, "stop", 0), c20Scenario("pool1-4submit", 1, 4, false, "", 0))
	}
	return s
}

func init() {
	vRegister(&vCheck{
		id: "C20", level: "model_checking", flavour: "sched", race: false,
		shards: func(string) int { return 16 },
		rule: "stateless model checking of the real WorkerPool (source-instrumented: every sync, atomic, channel, select, context and timer operation is a scheduling point of a controlled scheduler): scenarios with pool size 1-2, 2-4 submitters (SubmitWait or ExecuteWithWorker; each task yields once while running), a concurrent Stop and/or Resize (grow and shrink), the 50 ms submit timer as a virtual timer (fires at quiescence, or early as a deviation); every choice sequence within D-bound 3 (thorough: D-bound 4 and P-bound 2) is executed; after each execution: concurrently running tasks <= max(old,new) size, tasks started after Resize returned <= new size, every submitter returned, an accepted task ran exactly once and its result was delivered, a refused task did not run, never (nil,true), no panic.",
		assumptions: []string{"scheduling points are the synchronisation operations of the instrumented package; plain memory accesses between them are atomic steps (data races are outside this check)",
			"'blocked forever' = no thread is enabled, no timer is pending within the horizon, and the thread has not finished"},
		run: func(c *vCtx) {
			vSchedRunBudget(c, "C20", c20Scenarios(c.thorough()), []vPlan{{"D", 3}}, []vPlan{{"D", 4}, {"P", 2}}, 25*time.Minute)
		},
		replay: func(c *vCtx, raw json.RawMessage) { vSchedReplay(c, "C20", c20Scenarios(true), raw) },
	})
}
