// Package wire is an XDR / ONC RPC / NFSv3 / MOUNTv3 / portmap codec written
// from RFC 1831, RFC 1813 and RFC 1833, independently of the repository's own
// encoders. Decoders are strict: a reply must be consumed exactly.
package wire

import (
	"encoding/binary"
	"errors"
	"fmt"
)

// ---------------------------------------------------------------- encoder

type Enc struct{ B []byte }

func (e *Enc) U32(v uint32) *Enc { e.B = binary.BigEndian.AppendUint32(e.B, v); return e }
func (e *Enc) U64(v uint64) *Enc { e.B = binary.BigEndian.AppendUint64(e.B, v); return e }
func (e *Enc) Bool(v bool) *Enc {
	if v {
		return e.U32(1)
	}
	return e.U32(0)
}
func (e *Enc) Raw(b []byte) *Enc { e.B = append(e.B, b...); return e }
func (e *Enc) Opaque(b []byte) *Enc {
	e.U32(uint32(len(b)))
	e.B = append(e.B, b...)
	for len(e.B)%4 != 0 {
		e.B = append(e.B, 0)
	}
	return e
}
func (e *Enc) Str(s string) *Enc { return e.Opaque([]byte(s)) }

// FH encodes an 8-byte big-endian file handle as opaque<64>.
func (e *Enc) FH(h uint64) *Enc {
	var b [8]byte
	binary.BigEndian.PutUint64(b[:], h)
	return e.Opaque(b[:])
}

// Sattr is sattr3. Time: 0 don't change, 1 server time, 2 client time.
type Sattr struct {
	Mode, UID, GID *uint32
	Size           *uint64
	Atime, Mtime   int
	AtimeV, MtimeV [2]uint32
}

func U32p(v uint32) *uint32 { return &v }
func U64p(v uint64) *uint64 { return &v }

func (e *Enc) Sattr(s Sattr) *Enc {
	opt32 := func(p *uint32) {
		if p == nil {
			e.U32(0)
		} else {
			e.U32(1).U32(*p)
		}
	}
	opt32(s.Mode)
	opt32(s.UID)
	opt32(s.GID)
	if s.Size == nil {
		e.U32(0)
	} else {
		e.U32(1).U64(*s.Size)
	}
	e.U32(uint32(s.Atime))
	if s.Atime == 2 {
		e.U32(s.AtimeV[0]).U32(s.AtimeV[1])
	}
	e.U32(uint32(s.Mtime))
	if s.Mtime == 2 {
		e.U32(s.MtimeV[0]).U32(s.MtimeV[1])
	}
	return e
}

// Cred is an opaque_auth.
type Cred struct {
	Flavor uint32
	Body   []byte
}

// AuthSys builds an AUTH_SYS credential body.
func AuthSys(stamp uint32, machine string, uid, gid uint32, aux []uint32) []byte {
	var e Enc
	e.U32(stamp).Str(machine).U32(uid).U32(gid).U32(uint32(len(aux)))
	for _, g := range aux {
		e.U32(g)
	}
	return e.B
}

// Call builds a complete RPC call message.
func Call(xid, prog, vers, proc uint32, cred Cred, args []byte) []byte {
	var e Enc
	e.U32(xid).U32(0).U32(2).U32(prog).U32(vers).U32(proc)
	e.U32(cred.Flavor).Opaque(cred.Body)
	e.U32(0).U32(0) // AUTH_NONE verifier
	e.Raw(args)
	return e.B
}

// Record wraps a message into a single last-fragment record.
func Record(msg []byte) []byte {
	out := binary.BigEndian.AppendUint32(nil, 0x80000000|uint32(len(msg)))
	return append(out, msg...)
}

// Fragments wraps a message into fragments of the given sizes (the last takes
// the rest).
func Fragments(msg []byte, sizes ...int) []byte {
	var out []byte
	for _, n := range sizes {
		if n > len(msg) {
			n = len(msg)
		}
		out = binary.BigEndian.AppendUint32(out, uint32(n))
		out = append(out, msg[:n]...)
		msg = msg[n:]
	}
	out = binary.BigEndian.AppendUint32(out, 0x80000000|uint32(len(msg)))
	return append(out, msg...)
}

// ---------------------------------------------------------------- decoder

var ErrShort = errors.New("wire: reply too short")

type Dec struct {
	B   []byte
	Off int
	Err error
}

func (d *Dec) fail(err error) {
	if d.Err == nil {
		d.Err = err
	}
}
func (d *Dec) Left() int { return len(d.B) - d.Off }
func (d *Dec) U32() uint32 {
	if d.Err != nil {
		return 0
	}
	if d.Left() < 4 {
		d.fail(fmt.Errorf("%w at offset %d (need uint32)", ErrShort, d.Off))
		return 0
	}
	v := binary.BigEndian.Uint32(d.B[d.Off:])
	d.Off += 4
	return v
}
func (d *Dec) U64() uint64 {
	hi := d.U32()
	lo := d.U32()
	return uint64(hi)<<32 | uint64(lo)
}
func (d *Dec) Bool() bool {
	off := d.Off
	v := d.U32()
	if d.Err == nil && v > 1 {
		d.fail(fmt.Errorf("wire: bool with value %d at offset %d", v, off))
	}
	return v == 1
}
func (d *Dec) Opaque(max int) []byte {
	off := d.Off
	n := int(d.U32())
	if d.Err != nil {
		return nil
	}
	if n < 0 || n > max {
		d.fail(fmt.Errorf("wire: opaque length %d exceeds %d at offset %d", n, max, off))
		return nil
	}
	p := (n + 3) &^ 3
	if d.Left() < p {
		d.fail(fmt.Errorf("%w at offset %d (opaque of %d)", ErrShort, off, n))
		return nil
	}
	b := append([]byte(nil), d.B[d.Off:d.Off+n]...)
	for _, z := range d.B[d.Off+n : d.Off+p] {
		if z != 0 {
			d.fail(fmt.Errorf("wire: non-zero XDR padding at offset %d", d.Off+n))
		}
	}
	d.Off += p
	return b
}
func (d *Dec) Fixed(n int) []byte {
	if d.Err != nil {
		return nil
	}
	if d.Left() < n {
		d.fail(fmt.Errorf("%w at offset %d (fixed %d)", ErrShort, d.Off, n))
		return nil
	}
	b := append([]byte(nil), d.B[d.Off:d.Off+n]...)
	d.Off += n
	return b
}
func (d *Dec) Done() error {
	if d.Err != nil {
		return d.Err
	}
	if d.Left() != 0 {
		return fmt.Errorf("wire: %d trailing bytes after offset %d", d.Left(), d.Off)
	}
	return nil
}

// ---------------------------------------------------------------- RPC reply

type Reply struct {
	Xid        uint32
	Denied     bool
	AcceptStat uint32
	MisLo      uint32
	MisHi      uint32
	RejectStat uint32
	AuthStat   uint32
	VerfFlavor uint32
	VerfBody   []byte
	Result     []byte // procedure results (only for SUCCESS)
}

// ParseReply decodes an rpc_msg that must be a reply (RFC 1831 section 8).
func ParseReply(b []byte) (*Reply, error) {
	d := &Dec{B: b}
	r := &Reply{}
	r.Xid = d.U32()
	if mt := d.U32(); d.Err == nil && mt != 1 {
		return nil, fmt.Errorf("wire: msg_type %d, want REPLY(1)", mt)
	}
	switch rs := d.U32(); rs {
	case 0: // MSG_ACCEPTED
		r.VerfFlavor = d.U32()
		r.VerfBody = d.Opaque(400)
		r.AcceptStat = d.U32()
		if d.Err != nil {
			return nil, d.Err
		}
		switch r.AcceptStat {
		case 0:
			r.Result = append([]byte(nil), d.B[d.Off:]...)
			return r, nil
		case 2:
			r.MisLo = d.U32()
			r.MisHi = d.U32()
			if d.Err == nil && r.MisLo > r.MisHi {
				return nil, fmt.Errorf("wire: mismatch_info low %d > high %d", r.MisLo, r.MisHi)
			}
		case 1, 3, 4, 5:
		default:
			return nil, fmt.Errorf("wire: accept_stat %d not in RFC 1831 enumeration", r.AcceptStat)
		}
	case 1: // MSG_DENIED
		r.Denied = true
		r.RejectStat = d.U32()
		switch r.RejectStat {
		case 0:
			r.MisLo = d.U32()
			r.MisHi = d.U32()
		case 1:
			r.AuthStat = d.U32()
			if d.Err == nil && (r.AuthStat < 1 || r.AuthStat > 13) {
				return nil, fmt.Errorf("wire: auth_stat %d not in enumeration", r.AuthStat)
			}
		default:
			if d.Err == nil {
				return nil, fmt.Errorf("wire: reject_stat %d", r.RejectStat)
			}
		}
	default:
		if d.Err == nil {
			return nil, fmt.Errorf("wire: reply_stat %d", rs)
		}
	}
	if err := d.Done(); err != nil {
		return nil, err
	}
	return r, nil
}

// ---------------------------------------------------------------- NFSv3 results

const (
	ProgNFS     = 100003
	ProgMount   = 100005
	ProgPortmap = 100000
)

const (
	NULL = iota
	GETATTR
	SETATTR
	LOOKUP
	ACCESS
	READLINK
	READ
	WRITE
	CREATE
	MKDIR
	SYMLINK
	MKNOD
	REMOVE
	RMDIR
	RENAME
	LINK
	READDIR
	READDIRPLUS
	FSSTAT
	FSINFO
	PATHCONF
	COMMIT
)

var ProcNames = []string{"NULL", "GETATTR", "SETATTR", "LOOKUP", "ACCESS", "READLINK", "READ", "WRITE", "CREATE", "MKDIR", "SYMLINK", "MKNOD", "REMOVE", "RMDIR", "RENAME", "LINK", "READDIR", "READDIRPLUS", "FSSTAT", "FSINFO", "PATHCONF", "COMMIT"}

func ProcName(p uint32) string {
	if int(p) < len(ProcNames) {
		return ProcNames[p]
	}
	return fmt.Sprintf("PROC%d", p)
}

// Nfsstat3 is the RFC 1813 nfsstat3 enumeration.
var Nfsstat3 = map[uint32]string{
	0: "OK", 1: "PERM", 2: "NOENT", 5: "IO", 6: "NXIO", 13: "ACCES", 17: "EXIST", 18: "XDEV", 19: "NODEV",
	20: "NOTDIR", 21: "ISDIR", 22: "INVAL", 27: "FBIG", 28: "NOSPC", 30: "ROFS", 31: "MLINK", 63: "NAMETOOLONG",
	66: "NOTEMPTY", 69: "DQUOT", 70: "STALE", 71: "REMOTE", 10001: "BADHANDLE", 10002: "NOT_SYNC",
	10003: "BAD_COOKIE", 10004: "NOTSUPP", 10005: "TOOSMALL", 10006: "SERVERFAULT", 10007: "BADTYPE", 10008: "JUKEBOX",
}

// Mountstat3 is the RFC 1813 mountstat3 enumeration.
var Mountstat3 = map[uint32]string{0: "OK", 1: "PERM", 2: "NOENT", 5: "IO", 13: "ACCES", 20: "NOTDIR", 22: "INVAL", 63: "NAMETOOLONG", 10004: "NOTSUPP", 10006: "SERVERFAULT"}

func StatName(s uint32) string {
	if n, ok := Nfsstat3[s]; ok {
		return n
	}
	return fmt.Sprintf("status%d", s)
}

type Fattr struct {
	Type, Mode, Nlink, UID, GID uint32
	Size, Used                  uint64
	Rdev                        [2]uint32
	Fsid, Fileid                uint64
	Atime, Mtime, Ctime         [2]uint32
}

type WccAttr struct {
	Size         uint64
	Mtime, Ctime [2]uint32
}

type Wcc struct {
	Before *WccAttr
	After  *Fattr
}

type Entry struct {
	Fileid uint64
	Name   string
	Cookie uint64
	Attr   *Fattr // READDIRPLUS
	FH     []byte // READDIRPLUS (nil if absent)
}

type FSInfo struct {
	Rtmax, Rtpref, Rtmult, Wtmax, Wtpref, Wtmult, Dtpref uint32
	MaxFileSize                                          uint64
	TimeDelta                                            [2]uint32
	Properties                                           uint32
}

type NFSRes struct {
	Proc      uint32
	Status    uint32
	BadStatus bool   // Status is not a member of nfsstat3
	Attr      *Fattr // object attributes (GETATTR obj / LOOKUP obj / post-op of the file)
	DirAttr   *Fattr // LOOKUP dir attributes
	Wcc       *Wcc
	Wcc2      *Wcc
	FH        []byte
	Access    uint32
	Count     uint32
	EOF       bool
	Data      []byte
	Committed uint32
	Verf      []byte
	Link      string
	Entries   []Entry
	FSInfo    *FSInfo
	FSStat    []uint64
	PathConf  []uint32
}

func (d *Dec) time() [2]uint32 { return [2]uint32{d.U32(), d.U32()} }

func (d *Dec) fattr() *Fattr {
	f := &Fattr{}
	off := d.Off
	f.Type = d.U32()
	if d.Err == nil && (f.Type < 1 || f.Type > 7) {
		d.fail(fmt.Errorf("wire: ftype3 %d out of range at offset %d", f.Type, off))
	}
	f.Mode = d.U32()
	f.Nlink = d.U32()
	f.UID = d.U32()
	f.GID = d.U32()
	f.Size = d.U64()
	f.Used = d.U64()
	f.Rdev = [2]uint32{d.U32(), d.U32()}
	f.Fsid = d.U64()
	f.Fileid = d.U64()
	f.Atime = d.time()
	f.Mtime = d.time()
	f.Ctime = d.time()
	return f
}

func (d *Dec) postOpAttr() *Fattr {
	if d.Bool() {
		return d.fattr()
	}
	return nil
}

func (d *Dec) wcc() *Wcc {
	w := &Wcc{}
	if d.Bool() {
		w.Before = &WccAttr{Size: d.U64(), Mtime: d.time(), Ctime: d.time()}
	}
	w.After = d.postOpAttr()
	return w
}

func (d *Dec) postOpFH() []byte {
	if d.Bool() {
		return d.Opaque(64)
	}
	return nil
}

// DecodeNFS decodes the result of NFSv3 procedure proc, exactly.
func DecodeNFS(proc uint32, res []byte) (*NFSRes, error) {
	d := &Dec{B: res}
	r := &NFSRes{Proc: proc}
	if proc == NULL {
		return r, d.Done()
	}
	if proc > COMMIT {
		return nil, fmt.Errorf("wire: no such NFSv3 procedure %d", proc)
	}
	r.Status = d.U32()
	if d.Err != nil {
		return nil, fmt.Errorf("wire: %s result: %w", ProcName(proc), d.Err)
	}
	if _, ok := Nfsstat3[r.Status]; !ok {
		// keep decoding with the resfail shape so that the caller can tell a
		// bad status word from a malformed body
		r.BadStatus = true
	}
	ok := r.Status == 0
	switch proc {
	case GETATTR:
		if ok {
			r.Attr = d.fattr()
		}
	case SETATTR, REMOVE, RMDIR:
		r.Wcc = d.wcc()
	case LOOKUP:
		if ok {
			r.FH = d.Opaque(64)
			r.Attr = d.postOpAttr()
		}
		r.DirAttr = d.postOpAttr()
	case ACCESS:
		r.Attr = d.postOpAttr()
		if ok {
			r.Access = d.U32()
		}
	case READLINK:
		r.Attr = d.postOpAttr()
		if ok {
			r.Link = string(d.Opaque(1 << 20))
		}
	case READ:
		r.Attr = d.postOpAttr()
		if ok {
			r.Count = d.U32()
			r.EOF = d.Bool()
			r.Data = d.Opaque(1 << 30)
		}
	case WRITE:
		r.Wcc = d.wcc()
		if ok {
			r.Count = d.U32()
			off := d.Off
			r.Committed = d.U32()
			if d.Err == nil && r.Committed > 2 {
				d.fail(fmt.Errorf("wire: stable_how %d at offset %d", r.Committed, off))
			}
			r.Verf = d.Fixed(8)
		}
	case CREATE, MKDIR, SYMLINK, MKNOD:
		if ok {
			r.FH = d.postOpFH()
			r.Attr = d.postOpAttr()
		}
		r.Wcc = d.wcc()
	case RENAME:
		r.Wcc = d.wcc()
		r.Wcc2 = d.wcc()
	case LINK:
		r.Attr = d.postOpAttr()
		r.Wcc = d.wcc()
	case READDIR, READDIRPLUS:
		r.Attr = d.postOpAttr()
		if ok {
			r.Verf = d.Fixed(8)
			for d.Err == nil && d.Bool() {
				var e Entry
				e.Fileid = d.U64()
				e.Name = string(d.Opaque(1 << 16))
				e.Cookie = d.U64()
				if proc == READDIRPLUS {
					e.Attr = d.postOpAttr()
					e.FH = d.postOpFH()
				}
				r.Entries = append(r.Entries, e)
			}
			r.EOF = d.Bool()
		}
	case FSSTAT:
		r.Attr = d.postOpAttr()
		if ok {
			for i := 0; i < 6; i++ {
				r.FSStat = append(r.FSStat, d.U64())
			}
			r.FSStat = append(r.FSStat, uint64(d.U32()))
		}
	case FSINFO:
		r.Attr = d.postOpAttr()
		if ok {
			fi := &FSInfo{}
			fi.Rtmax, fi.Rtpref, fi.Rtmult = d.U32(), d.U32(), d.U32()
			fi.Wtmax, fi.Wtpref, fi.Wtmult = d.U32(), d.U32(), d.U32()
			fi.Dtpref = d.U32()
			fi.MaxFileSize = d.U64()
			fi.TimeDelta = d.time()
			fi.Properties = d.U32()
			r.FSInfo = fi
		}
	case PATHCONF:
		r.Attr = d.postOpAttr()
		if ok {
			r.PathConf = []uint32{d.U32(), d.U32()}
			for i := 0; i < 4; i++ {
				if d.Bool() {
					r.PathConf = append(r.PathConf, 1)
				} else {
					r.PathConf = append(r.PathConf, 0)
				}
			}
		}
	case COMMIT:
		r.Wcc = d.wcc()
		if ok {
			r.Verf = d.Fixed(8)
		}
	}
	if err := d.Done(); err != nil {
		return r, fmt.Errorf("wire: %s result (status %s): %w", ProcName(proc), StatName(r.Status), err)
	}
	return r, nil
}

// FHVal converts an 8-byte handle to its integer value.
func FHVal(b []byte) (uint64, bool) {
	if len(b) != 8 {
		return 0, false
	}
	return binary.BigEndian.Uint64(b), true
}

// ---------------------------------------------------------------- MOUNT v3

type MountRes struct {
	Proc      uint32
	Status    uint32
	BadStatus bool // Status is not a member of mountstat3
	FH        []byte
	Flavors   []uint32
	Mounts    [][2]string
	Exports   []Export
}

type Export struct {
	Dir    string
	Groups []string
}

// DecodeMount decodes a MOUNT v3 result exactly.
func DecodeMount(proc uint32, res []byte) (*MountRes, error) {
	d := &Dec{B: res}
	r := &MountRes{Proc: proc}
	switch proc {
	case 0, 3, 4: // NULL, UMNT, UMNTALL: void
	case 1: // MNT
		r.Status = d.U32()
		if d.Err == nil {
			if _, ok := Mountstat3[r.Status]; !ok {
				r.BadStatus = true
			}
		}
		if r.Status == 0 {
			r.FH = d.Opaque(64)
			n := d.U32()
			if d.Err == nil && n > 64 {
				d.fail(fmt.Errorf("wire: %d auth flavors", n))
			}
			for i := uint32(0); i < n && d.Err == nil; i++ {
				r.Flavors = append(r.Flavors, d.U32())
			}
		}
	case 2: // DUMP
		for d.Err == nil && d.Bool() {
			h := string(d.Opaque(255))
			p := string(d.Opaque(1024))
			r.Mounts = append(r.Mounts, [2]string{h, p})
		}
	case 5: // EXPORT
		for d.Err == nil && d.Bool() {
			var e Export
			e.Dir = string(d.Opaque(1024))
			for d.Err == nil && d.Bool() {
				e.Groups = append(e.Groups, string(d.Opaque(255)))
			}
			r.Exports = append(r.Exports, e)
		}
	default:
		return nil, fmt.Errorf("wire: no such MOUNT procedure %d", proc)
	}
	if err := d.Done(); err != nil {
		return r, fmt.Errorf("wire: MOUNT proc %d result: %w", proc, err)
	}
	return r, nil
}

// ---------------------------------------------------------------- portmap / rpcbind

type PmapEntry struct {
	Prog, Vers, Prot, Port uint32
	Netid, Addr, Owner     string
}

type PmapRes struct {
	Bool    bool
	Port    uint32
	Addr    string
	Entries []PmapEntry
}

// DecodePmap decodes a portmap v2 / rpcbind v3,v4 result exactly.
// Procedures: 0 NULL 1 SET 2 UNSET 3 GETPORT/GETADDR 4 DUMP.
func DecodePmap(vers, proc uint32, res []byte) (*PmapRes, error) {
	d := &Dec{B: res}
	r := &PmapRes{}
	switch proc {
	case 0:
	case 1, 2:
		r.Bool = d.Bool()
	case 3:
		if vers == 2 {
			r.Port = d.U32()
		} else {
			r.Addr = string(d.Opaque(1024))
		}
	case 4:
		for d.Err == nil && d.Bool() {
			var e PmapEntry
			e.Prog = d.U32()
			e.Vers = d.U32()
			if vers == 2 {
				e.Prot = d.U32()
				e.Port = d.U32()
			} else {
				e.Netid = string(d.Opaque(1024))
				e.Addr = string(d.Opaque(1024))
				e.Owner = string(d.Opaque(1024))
			}
			r.Entries = append(r.Entries, e)
		}
	default:
		return nil, fmt.Errorf("wire: portmap procedure %d not modelled", proc)
	}
	if err := d.Done(); err != nil {
		return r, fmt.Errorf("wire: portmap v%d proc %d result: %w", vers, proc, err)
	}
	return r, nil
}
