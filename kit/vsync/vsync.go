// Package vsync is the scheduler-visible stand-in for package sync in the
// sched build flavour. Outside a controlled execution (vsched.Active() false)
// every type falls back to the real primitive, so package-level initialisers
// and harness set-up code keep working.
package vsync

import (
	"sync"

	"github.com/absfs/absnfs/internal/verif/vsched"
)

type Locker = sync.Locker
type Pool = sync.Pool

// ---------------------------------------------------------------- Mutex

type Mutex struct {
	real   sync.Mutex
	held   bool
	holder int
	q      bool
}

func (m *Mutex) op(kind string, en func() bool) *vsched.Op {
	return &vsched.Op{Kind: kind, Obj: "mutex", Enabled: en, Quiet: m.q}
}

func (m *Mutex) Lock() {
	if vsched.Dying() {
		return
	}
	if !vsched.Active() {
		m.real.Lock()
		return
	}
	vsched.Point(m.op("Lock", func() bool { return !m.held }))
	if vsched.Dying() {
		return
	}
	m.held = true
	m.holder = vsched.CurrentID()
}

// Held reports whether some thread holds the mutex (harness inspection only).
func (m *Mutex) Held() bool { return m.held }

func (m *Mutex) TryLock() bool {
	if vsched.Dying() {
		return false
	}
	if !vsched.Active() {
		return m.real.TryLock()
	}
	vsched.Point(m.op("TryLock", nil))
	if vsched.Dying() || m.held {
		return false
	}
	m.held = true
	m.holder = vsched.CurrentID()
	return true
}

func (m *Mutex) Unlock() {
	if vsched.Dying() {
		return
	}
	if !vsched.Active() {
		m.real.Unlock()
		return
	}
	vsched.Point(m.op("Unlock", nil))
	if vsched.Dying() {
		return
	}
	if !m.held {
		panic("sync: unlock of unlocked mutex")
	}
	m.held = false
}

// ---------------------------------------------------------------- RWMutex

// RWMutex models Go's writer preference: a pending Lock makes RLock block and
// TryRLock fail.
type RWMutex struct {
	real           sync.RWMutex
	readers        int
	writer         bool
	pendingWriters int
	q              bool
}

func (m *RWMutex) op(kind string, en func() bool) *vsched.Op {
	return &vsched.Op{Kind: kind, Obj: "rwmutex", Enabled: en, Quiet: m.q}
}

func (m *RWMutex) Lock() {
	if vsched.Dying() {
		return
	}
	if !vsched.Active() {
		m.real.Lock()
		return
	}
	vsched.Point(m.op("Lock-announce", nil))
	if vsched.Dying() {
		return
	}
	m.pendingWriters++
	vsched.Point(m.op("Lock", func() bool { return !m.writer && m.readers == 0 }))
	m.pendingWriters--
	if vsched.Dying() {
		return
	}
	m.writer = true
}

func (m *RWMutex) TryLock() bool {
	if vsched.Dying() {
		return false
	}
	if !vsched.Active() {
		return m.real.TryLock()
	}
	vsched.Point(m.op("TryLock", nil))
	if vsched.Dying() || m.writer || m.readers > 0 {
		return false
	}
	m.writer = true
	return true
}

func (m *RWMutex) Unlock() {
	if vsched.Dying() {
		return
	}
	if !vsched.Active() {
		m.real.Unlock()
		return
	}
	vsched.Point(m.op("Unlock", nil))
	if vsched.Dying() {
		return
	}
	if !m.writer {
		panic("sync: Unlock of unlocked RWMutex")
	}
	m.writer = false
}

func (m *RWMutex) RLock() {
	if vsched.Dying() {
		return
	}
	if !vsched.Active() {
		m.real.RLock()
		return
	}
	vsched.Point(m.op("RLock", func() bool { return !m.writer && m.pendingWriters == 0 }))
	if vsched.Dying() {
		return
	}
	m.readers++
}

func (m *RWMutex) TryRLock() bool {
	if vsched.Dying() {
		return false
	}
	if !vsched.Active() {
		return m.real.TryRLock()
	}
	vsched.Point(m.op("TryRLock", nil))
	if vsched.Dying() || m.writer || m.pendingWriters > 0 {
		return false
	}
	m.readers++
	return true
}

func (m *RWMutex) RUnlock() {
	if vsched.Dying() {
		return
	}
	if !vsched.Active() {
		m.real.RUnlock()
		return
	}
	vsched.Point(m.op("RUnlock", nil))
	if vsched.Dying() {
		return
	}
	if m.readers <= 0 {
		panic("sync: RUnlock of unlocked RWMutex")
	}
	m.readers--
}

func (m *RWMutex) RLocker() Locker { return rlocker{m} }

type rlocker struct{ m *RWMutex }

func (r rlocker) Lock()   { r.m.RLock() }
func (r rlocker) Unlock() { r.m.RUnlock() }

// State is for harness assertions: readers, writer held, pending writers.
func (m *RWMutex) State() (int, bool, int) { return m.readers, m.writer, m.pendingWriters }

// ---------------------------------------------------------------- WaitGroup

type WaitGroup struct {
	real sync.WaitGroup
	n    int
}

func (w *WaitGroup) Add(delta int) {
	if vsched.Dying() {
		return
	}
	if !vsched.Active() {
		w.real.Add(delta)
		return
	}
	vsched.Point(&vsched.Op{Kind: "wg.Add", Obj: "waitgroup"})
	if vsched.Dying() {
		return
	}
	w.n += delta
	if w.n < 0 {
		panic("sync: negative WaitGroup counter")
	}
}

func (w *WaitGroup) Done() { w.Add(-1) }

func (w *WaitGroup) Wait() {
	if vsched.Dying() {
		return
	}
	if !vsched.Active() {
		w.real.Wait()
		return
	}
	vsched.Point(&vsched.Op{Kind: "wg.Wait", Obj: "waitgroup", Enabled: func() bool { return w.n == 0 }})
}

// Count is for harness assertions.
func (w *WaitGroup) Count() int { return w.n }

// ---------------------------------------------------------------- Once

type Once struct {
	real    sync.Once
	state   int // 0 not started, 1 running, 2 done
	running int
}

func (o *Once) Do(f func()) {
	if vsched.Dying() {
		return
	}
	if !vsched.Active() {
		o.real.Do(f)
		return
	}
	vsched.Point(&vsched.Op{Kind: "once.Do", Obj: "once", Enabled: func() bool { return o.state != 1 }})
	if vsched.Dying() || o.state == 2 {
		return
	}
	o.state = 1
	defer func() { o.state = 2 }()
	f()
}

// ---------------------------------------------------------------- Map

// Map wraps sync.Map; every call is a scheduling point.
type Map struct{ real sync.Map }

func mapPoint(kind string) {
	if vsched.Active() {
		vsched.Point(&vsched.Op{Kind: kind, Obj: "syncmap"})
	}
}

func (m *Map) Load(k any) (any, bool) { mapPoint("map.Load"); return m.real.Load(k) }
func (m *Map) Store(k, v any)         { mapPoint("map.Store"); m.real.Store(k, v) }
func (m *Map) LoadOrStore(k, v any) (any, bool) {
	mapPoint("map.LoadOrStore")
	return m.real.LoadOrStore(k, v)
}
func (m *Map) LoadAndDelete(k any) (any, bool) {
	mapPoint("map.LoadAndDelete")
	return m.real.LoadAndDelete(k)
}
func (m *Map) Delete(k any)                { mapPoint("map.Delete"); m.real.Delete(k) }
func (m *Map) Range(f func(k, v any) bool) { mapPoint("map.Range"); m.real.Range(f) }
func (m *Map) Swap(k, v any) (any, bool)   { mapPoint("map.Swap"); return m.real.Swap(k, v) }
func (m *Map) CompareAndSwap(k, o, n any) bool {
	mapPoint("map.CAS")
	return m.real.CompareAndSwap(k, o, n)
}
func (m *Map) CompareAndDelete(k, o any) bool {
	mapPoint("map.CAD")
	return m.real.CompareAndDelete(k, o)
}
