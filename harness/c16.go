package absnfs

// C16 — policy updates are atomic with respect to requests (drain and swap).

import "encoding/json"

func init() {
	vRegister(&vCheck{
		id: "C16", level: "model_checking", flavour: "sched", race: false,
		shards: func(string) int { return 16 },
		rule: "stateless model checking of the real server (source-instrumented, controlled scheduler): a request (WRITE or LOOKUP through HandleCall, worker pool of 1) runs concurrently with UpdatePolicyOptions (read-only on, AllowedIPs changed; thorough: two racing updates) or with UpdateExportOptions (read-only on plus cache-size and worker-count changes), a second request is sent by the updater after its update returned, and a third scenario lets the per-operation timeout fire early; every backend call is a scheduling point and is logged with the requesting thread and the live policy pointer. Every choice sequence within D-bound 3 (thorough D-bound 4, P-bound 3) is executed. Oracles per execution: one policy snapshot per request; after the last update returned no request admitted earlier issues a backend call, and no modifying backend call at all once read-only is in force; update and requests always return; the request sent after the update is judged by the new policy (ROFS / denied); replies decode strictly. S7: two LOOKUPs on one connection (dispatched through the worker pool) while UpdateTuningOptions changes the worker count and cache sizes: both are answered OK, nothing blocks. A sequential clause (single schedule) enables rate limiting (burst 1, rate 0) at runtime and checks that a connection opened earlier is limited.",
		assumptions: []string{"scheduling points are the synchronisation operations of the instrumented package plus every backend call; plain memory accesses between them are atomic steps",
			"metrics and logging internals are not scheduling points"},
		run:    func(c *vCtx) { vSchedRunPlans(c, "C16", c16Scenarios(c.thorough()), []vPlan{{"D", 3}}, []vPlan{{"D", 4}, {"P", 3}}) },
		replay: func(c *vCtx, raw json.RawMessage) { vSchedReplay(c, "C16", c16Scenarios(true), raw) },
	})
}
