package vsync

// Quiet variants: blocking is modelled as usual, but an enabled operation is
// not a preemption point. Used for files that only keep statistics.

type QMutex struct{ Mutex }

func (m *QMutex) Lock()         { m.Mutex.q = true; m.Mutex.Lock() }
func (m *QMutex) Unlock()       { m.Mutex.q = true; m.Mutex.Unlock() }
func (m *QMutex) TryLock() bool { m.Mutex.q = true; return m.Mutex.TryLock() }

type QRWMutex struct{ RWMutex }

func (m *QRWMutex) Lock()          { m.RWMutex.q = true; m.RWMutex.Lock() }
func (m *QRWMutex) Unlock()        { m.RWMutex.q = true; m.RWMutex.Unlock() }
func (m *QRWMutex) RLock()         { m.RWMutex.q = true; m.RWMutex.RLock() }
func (m *QRWMutex) RUnlock()       { m.RWMutex.q = true; m.RWMutex.RUnlock() }
func (m *QRWMutex) TryRLock() bool { m.RWMutex.q = true; return m.RWMutex.TryRLock() }
func (m *QRWMutex) TryLock() bool  { m.RWMutex.q = true; return m.RWMutex.TryLock() }
