package absnfs

// SHIM — conformance of the scheduler's lock / channel / wait-group shims with the real
// primitives. For small multi-threaded programs over one shared object the set of
// outcomes reachable under the shim (ALL schedules, enumerated by the explorer) must
// contain every outcome the real primitive produces on real goroutines (sampled with
// yields; a run that is still blocked after 3 s is the outcome "deadlock"). A real
// outcome outside the shim's set means the explorer would miss behaviours.
//
// This is a self-test of the tool, not a property check; it is run by `vcheck SHIM`.

import (
	"fmt"
	"runtime"
	"sort"
	"strings"
	"sync"
	"time"

	"github.com/absfs/absnfs/internal/verif/vsched"
	"github.com/absfs/absnfs/internal/verif/vsync"
)

// an abstract lock-like object with both implementations behind it
type scObj interface {
	Lock()
	Unlock()
	RLock()
	RUnlock()
	TryLock() bool
	TryRLock() bool
}

type scStep string // Lock Unlock RLock RUnlock TryLock TryRLock Send Recv Close Add Done Wait

// thread programs over an RWMutex; "T?" steps record their result and release on success
var scRWPrograms = map[string][]scStep{
	"W":   {"Lock", "Unlock"},
	"R":   {"RLock", "RUnlock"},
	"RR":  {"RLock", "RLock", "RUnlock", "RUnlock"}, // recursive read lock: deadlocks with a pending writer
	"TW":  {"TryLock"},
	"TR":  {"TryRLock"},
	"WTR": {"Lock", "Unlock", "TryRLock"},
	"RTW": {"RLock", "RUnlock", "TryLock"},
}

func scRunRW(o scObj, prog []scStep, yield func()) string {
	var out []string
	for _, st := range prog {
		yield()
		switch st {
		case "Lock":
			o.Lock()
		case "Unlock":
			o.Unlock()
		case "RLock":
			o.RLock()
		case "RUnlock":
			o.RUnlock()
		case "TryLock":
			ok := o.TryLock()
			out = append(out, fmt.Sprintf("trylock=%v", ok))
			if ok {
				yield()
				o.Unlock()
			}
		case "TryRLock":
			ok := o.TryRLock()
			out = append(out, fmt.Sprintf("tryrlock=%v", ok))
			if ok {
				yield()
				o.RUnlock()
			}
		}
	}
	return strings.Join(out, ",")
}

type scCombo struct {
	name  string
	progs []string
}

func scCombos() []scCombo {
	var names []string
	for n := range scRWPrograms {
		names = append(names, n)
	}
	sort.Strings(names)
	var out []scCombo
	for i, a := range names {
		for j, b := range names {
			if j < i {
				continue
			}
			out = append(out, scCombo{a + "|" + b, []string{a, b}})
			for k, c := range names {
				if k < j {
					continue
				}
				if a == "RR" || b == "RR" || c == "RR" || (a[0] == 'T' && b[0] == 'W') {
					out = append(out, scCombo{a + "|" + b + "|" + c, []string{a, b, c}})
				}
			}
		}
	}
	return out
}

// shim side: all schedules
func scShimOutcomes(cb scCombo) map[string]bool {
	outs := map[string]bool{}
	var explore func(prefix []int)
	runs := 0
	explore = func(prefix []int) {
		res := make([]string, len(cb.progs))
		done := make([]bool, len(cb.progs))
		r := vsched.Run(vsched.Options{Prefix: prefix, Horizon: time.Second}, func() {
			var m vsync.RWMutex
			for i, pn := range cb.progs {
				i, pn := i, pn
				vsched.GoNamed(fmt.Sprintf("t%d", i), func() {
					res[i] = scRunRW(&m, scRWPrograms[pn], func() {})
					done[i] = true
				})
			}
		})
		runs++
		o := scOutcome(res, done)
		outs[o] = true
		if runs > 200000 {
			return
		}
		for i := len(prefix); i < len(r.Points); i++ {
			for alt := 1; alt < r.Points[i].N; alt++ {
				np := append(append([]int{}, r.Choices()[:i]...), alt)
				explore(np)
			}
		}
	}
	explore(nil)
	return outs
}

func scOutcome(res []string, done []bool) string {
	var parts []string
	dead := false
	for i := range res {
		if !done[i] {
			dead = true
		}
	}
	if dead {
		return "deadlock"
	}
	for i := range res {
		parts = append(parts, fmt.Sprintf("t%d[%s]", i, res[i]))
	}
	return strings.Join(parts, " ")
}

// real side: sampled
type scReal struct{ sync.RWMutex }

func scRealOutcomes(cb scCombo, runs int) map[string]int {
	outs := map[string]int{}
	for it := 0; it < runs; it++ {
		var m scReal
		res := make([]string, len(cb.progs))
		done := make([]bool, len(cb.progs))
		var mu sync.Mutex
		fin := make(chan struct{}, len(cb.progs))
		start := make(chan struct{})
		for i, pn := range cb.progs {
			i, pn := i, pn
			go func() {
				<-start
				seed := it*7 + i*3
				r := scRunRW(&m, scRWPrograms[pn], func() {
					seed = seed*1103515245 + 12345
					for k := 0; k < (seed>>16)&3; k++ {
						runtime.Gosched()
					}
				})
				mu.Lock()
				res[i], done[i] = r, true
				mu.Unlock()
				fin <- struct{}{}
			}()
		}
		close(start)
		timeout := time.After(3 * time.Second)
		n := 0
	wait:
		for n < len(cb.progs) {
			select {
			case <-fin:
				n++
			case <-timeout:
				break wait
			}
		}
		mu.Lock()
		o := scOutcome(append([]string{}, res...), append([]bool{}, done...))
		mu.Unlock()
		outs[o]++
		if o == "deadlock" && outs[o] > 3 {
			break // each deadlocked run leaks blocked goroutines; a few observations are enough
		}
	}
	return outs
}

func shimConformance(c *vCtx) {
	runs := 300
	if c.thorough() {
		runs = 3000
	}
	for i, cb := range scCombos() {
		if !c.mine(i) {
			continue
		}
		c.beat(func() any { return cb.name })
		shim := scShimOutcomes(cb)
		real := scRealOutcomes(cb, runs)
		c.res.Evaluations++
		c.res.States += int64(len(shim))
		for o, n := range real {
			if !shim[o] {
				var ss []string
				for s := range shim {
					ss = append(ss, s)
				}
				sort.Strings(ss)
				c.violation("SHIM|real-outcome-not-reachable-under-shim|prog="+cb.name, fmt.Sprintf("programs %s on one RWMutex: the real primitive produced %q (%d of %d runs), the shim only allows %v", cb.name, o, n, runs, ss), cb.name)
			}
		}
		c.outcome(fmt.Sprintf("shim=%d real=%d", len(shim), len(real)))
	}
}
