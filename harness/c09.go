package absnfs

// C09 — host filtering and the secure-port rule gate every request.
// Complete product of client addresses x allow-lists (x ports x Secure) against
// an independent bit-arithmetic membership oracle, at three seams:
// isIPAllowed (auth.go), Server.isIPAllowed (connection filter) and HandleCall.

import (
	"encoding/json"
	"fmt"
	"strconv"
	"strings"

	"github.com/absfs/absnfs/internal/verif/recfs"
	"github.com/absfs/absnfs/internal/verif/wire"
)

// ---- independent address arithmetic (no net package)

type oIP struct {
	v4 bool
	b  [16]byte // v4 in b[12:]
}

func oParseV4(s string) ([4]byte, bool) {
	var out [4]byte
	parts := strings.Split(s, ".")
	if len(parts) != 4 {
		return out, false
	}
	for i, p := range parts {
		if p == "" || len(p) > 3 || (len(p) > 1 && p[0] == '0') {
			return out, false
		}
		n := 0
		for _, ch := range p {
			if ch < '0' || ch > '9' {
				return out, false
			}
			n = n*10 + int(ch-'0')
		}
		if n > 255 {
			return out, false
		}
		out[i] = byte(n)
	}
	return out, true
}

// oParseIP parses dotted-quad IPv4 and RFC 4291 text IPv6 (with optional
// embedded IPv4 tail); anything else (zones, junk) is malformed. The result is
// normalised: IPv4-mapped IPv6 becomes IPv4.
func oParseIP(s string) (oIP, bool) {
	var ip oIP
	if v4, ok := oParseV4(s); ok {
		ip.v4 = true
		copy(ip.b[12:], v4[:])
		return ip, true
	}
	if !strings.Contains(s, ":") || strings.ContainsAny(s, "%/ ") {
		return ip, false
	}
	var head, tail []uint16
	parseGroups := func(str string, allowV4 bool) ([]uint16, bool) {
		if str == "" {
			return nil, true
		}
		var gs []uint16
		parts := strings.Split(str, ":")
		for i, p := range parts {
			if allowV4 && i == len(parts)-1 && strings.Contains(p, ".") {
				v4, ok := oParseV4(p)
				if !ok {
					return nil, false
				}
				gs = append(gs, uint16(v4[0])<<8|uint16(v4[1]), uint16(v4[2])<<8|uint16(v4[3]))
				continue
			}
			if p == "" || len(p) > 4 {
				return nil, false
			}
			n, err := strconv.ParseUint(p, 16, 16)
			if err != nil {
				return nil, false
			}
			gs = append(gs, uint16(n))
		}
		return gs, true
	}
	var groups []uint16
	if i := strings.Index(s, "::"); i >= 0 {
		if strings.Contains(s[i+2:], "::") {
			return ip, false
		}
		var ok bool
		if head, ok = parseGroups(s[:i], false); !ok {
			return ip, false
		}
		if tail, ok = parseGroups(s[i+2:], true); !ok {
			return ip, false
		}
		if len(head)+len(tail) > 7 {
			return ip, false
		}
		groups = append(groups, head...)
		for len(groups)+len(tail) < 8 {
			groups = append(groups, 0)
		}
		groups = append(groups, tail...)
	} else {
		var ok bool
		if groups, ok = parseGroups(s, true); !ok || len(groups) != 8 {
			return ip, false
		}
	}
	for i, g := range groups {
		ip.b[2*i] = byte(g >> 8)
		ip.b[2*i+1] = byte(g)
	}
	mapped := true
	for i := 0; i < 10; i++ {
		if ip.b[i] != 0 {
			mapped = false
		}
	}
	if mapped && ip.b[10] == 0xff && ip.b[11] == 0xff {
		var n oIP
		n.v4 = true
		copy(n.b[12:], ip.b[12:])
		return n, true
	}
	return ip, true
}

// oAllowed: verdict of the membership rule; judged=false where the rule is
// ambiguous (IPv4 client against an IPv6 CIDR shorter than /96 or vice versa).
func oAllowed(client string, list []string) (allowed, judged bool) {
	judged = true
	if len(list) == 0 {
		return true, true
	}
	c, ok := oParseIP(client)
	if !ok {
		return false, true
	}
	for _, e := range list {
		if i := strings.IndexByte(e, '/'); i >= 0 {
			base, ok := oParseIPRaw(e[:i])
			if !ok {
				continue
			}
			ps := e[i+1:]
			if ps == "" || len(ps) > 3 || (len(ps) > 1 && ps[0] == '0') {
				continue
			}
			p, err := strconv.Atoi(ps)
			if err != nil || p < 0 {
				continue
			}
			bits := 128
			start := 0
			if base.v4 {
				bits, start = 32, 96
			}
			if p > bits {
				continue
			}
			if !base.v4 && base.mapped() && p >= 96 {
				// an IPv4-mapped network denotes the IPv4 network
				base.v4, start, p = true, 96, p-96
			}
			if base.v4 != c.v4 {
				if p == 0 || (!base.v4 && base.mapped()) {
					judged = false
				}
				continue
			}
			match := true
			for k := 0; k < p; k++ {
				bi := start + k
				if (base.b[bi/8]>>(7-bi%8))&1 != (c.b[bi/8]>>(7-bi%8))&1 {
					match = false
					break
				}
			}
			if match {
				return true, judged
			}
		} else {
			a, ok := oParseIP(e)
			if ok && a == c {
				return true, judged
			}
		}
	}
	return false, judged
}

func (ip oIP) mapped() bool {
	for i := 0; i < 10; i++ {
		if ip.b[i] != 0 {
			return false
		}
	}
	return ip.b[10] == 0xff && ip.b[11] == 0xff
}

// oParseIPRaw parses without collapsing mapped addresses (needed for CIDR bases).
func oParseIPRaw(s string) (oIP, bool) {
	if v4, ok := oParseV4(s); ok {
		var ip oIP
		ip.v4 = true
		copy(ip.b[12:], v4[:])
		return ip, true
	}
	ip, ok := oParseIP(s)
	if !ok {
		return ip, false
	}
	if ip.v4 { // was mapped: undo the collapse
		var r oIP
		r.b[10], r.b[11] = 0xff, 0xff
		copy(r.b[12:], ip.b[12:])
		return r, true
	}
	return ip, true
}

type c09Case struct {
	Seam   string   `json:"seam"`
	Client string   `json:"client"`
	Port   int      `json:"port,omitempty"`
	Secure bool     `json:"secure,omitempty"`
	List   []string `json:"list"`
	Prog   uint32   `json:"prog,omitempty"`
	Proc   uint32   `json:"proc,omitempty"`
}

var c09Clients = []string{"0.0.0.0", "10.0.0.1", "10.0.0.255", "10.0.1.0", "10.128.0.1", "11.0.0.1", "127.0.0.1", "255.255.255.255",
	"::", "::1", "2001:db8::1", "2001:db8::2", "2001:db9::1", "fe80::1", "::ffff:10.0.0.1", "::ffff:127.0.0.1", "::ffff:a00:1",
	"", "abc", "10.0.0", "1.2.3.4.5", "1.2.3.4%eth0", "fe80::1%eth0", "10.0.0.1 ", "010.0.0.1", "10.0.0.256"}

func c09Lists() [][]string {
	var ls [][]string
	for _, c := range c09Clients[:17] {
		ls = append(ls, []string{c})
	}
	for p := 0; p <= 32; p++ {
		ls = append(ls, []string{fmt.Sprintf("10.0.0.1/%d", p)})
		ls = append(ls, []string{fmt.Sprintf("10.128.0.0/%d", p)})
	}
	for _, p := range []int{0, 1, 16, 31, 32, 33, 48, 64, 96, 127, 128} {
		ls = append(ls, []string{fmt.Sprintf("2001:db8::1/%d", p)})
	}
	for _, p := range []int{96, 104, 120, 128} {
		ls = append(ls, []string{fmt.Sprintf("::ffff:10.0.0.0/%d", p)})
	}
	for _, bad := range []string{"10.0.0.0/33", "/24", "abc", "10.0.0.1/", "10.0.0.1/-1", "2001:db8::/129", "10.0.0.1/x", " 10.0.0.1", "*"} {
		ls = append(ls, []string{bad})
	}
	sub := []string{"10.0.0.1", "10.0.0.0/24", "10.0.1.0/32", "2001:db8::/32", "::1", "::ffff:10.0.0.1", "abc", "10.0.0.0/33", "127.0.0.0/8", "11.0.0.0/31"}
	for _, a := range sub {
		for _, b := range sub {
			ls = append(ls, []string{a, b})
		}
	}
	return ls
}

func c09Judge(c *vCtx, cs c09Case, srv *Server) {
	c.beat(func() any { return cs })
	want, judged := oAllowed(cs.Client, cs.List)
	c.res.Evaluations++
	if !judged {
		c.count("not_judged_family_mismatch", 1)
		return
	}
	var got bool
	switch cs.Seam {
	case "auth":
		got = len(cs.List) == 0 || isIPAllowed(cs.Client, cs.List)
	case "conn":
		p := *srv.handler.policy.Load()
		p.AllowedIPs = cs.List
		srv.handler.policy.Store(&p)
		got = srv.isIPAllowed(cs.Client)
	}
	c.outcome(fmt.Sprintf("%s:%v", cs.Seam, got))
	if got != want {
		kind := "admits-unlisted"
		if want {
			kind = "rejects-listed"
		}
		shape := "ip"
		if len(cs.List) > 0 && strings.Contains(cs.List[0], "/") {
			shape = "cidr"
		}
		cl := "v4"
		if strings.Contains(cs.Client, ":") {
			cl = "v6"
			if strings.HasPrefix(cs.Client, "::ffff:") {
				cl = "mapped"
			}
		}
		if _, ok := oParseIP(cs.Client); !ok {
			cl = "malformed"
		}
		c.violation(fmt.Sprintf("C09|%s|seam=%s|client=%s|entry=%s", kind, cs.Seam, cl, shape),
			fmt.Sprintf("%s filter: client %q against %q: got allowed=%v, membership rule says %v", cs.Seam, cs.Client, cs.List, got, want), cs)
	}
}

// c09Gate sends one request through HandleCall from (client, port) under
// (list, secure) and checks that a rejected request is MSG_DENIED and touches nothing.
func c09Gate(c *vCtx, cs c09Case) {
	c.beat(func() any { return cs })
	e, err := vNewEnv(ExportOptions{AllowedIPs: cs.List, Secure: cs.Secure, AttrCacheTimeout: 1}, func(fs *recfs.FS) {
		f, _ := fs.Create("/f")
		f.Write([]byte("x"))
		f.Close()
		fs.Mkdir("/d", 0o755)
	})
	vMust(err, "env")
	defer e.close()
	// obtain handles as an allowed client first (lists are swapped in afterwards)
	p0 := *e.nfs.policy.Load()
	open := p0
	open.AllowedIPs, open.Secure = nil, false
	vMust(e.nfs.UpdatePolicyOptions(open), "open policy")
	root, err := e.mnt("/")
	vMust(err, "mnt")
	fh, err := e.lookupFH(root, "f")
	vMust(err, "lookup")
	vMust(e.nfs.UpdatePolicyOptions(p0), "restore policy")
	e.ip, e.port = cs.Client, cs.Port
	allowedIP, judged := oAllowed(cs.Client, cs.List)
	if !judged {
		return
	}
	want := allowedIP && (!cs.Secure || cs.Port < 1024)
	args := c14Args(cs.Prog, cs.Proc, root, fh)
	logFrom := e.fs.LogLen()
	handlesBefore := e.nfs.fileMap.Count()
	vers := uint32(3)
	rp, _, err := e.call(cs.Prog, vers, cs.Proc, args)
	c.res.Evaluations++
	pn := fmt.Sprintf("prog%d/proc%d", cs.Prog, cs.Proc)
	if err != nil {
		c.violation("C09|gate-call-failed", fmt.Sprintf("%s: %v", pn, err), cs)
		return
	}
	touched := e.fs.LogLen() - logFrom
	if !want {
		if !rp.Denied {
			c.violation(fmt.Sprintf("C09|rejected-request-not-denied|secure=%v", cs.Secure),
				fmt.Sprintf("%s from %s:%d with AllowedIPs=%q Secure=%v was not answered MSG_DENIED (accept_stat=%d)", pn, cs.Client, cs.Port, cs.List, cs.Secure, rp.AcceptStat), cs)
		}
		if touched != 0 || e.nfs.fileMap.Count() != handlesBefore {
			c.violation("C09|rejected-request-reached-backend",
				fmt.Sprintf("%s from %s:%d (must be rejected) caused %d backend calls / handle table %d->%d", pn, cs.Client, cs.Port, touched, handlesBefore, e.nfs.fileMap.Count()), cs)
		}
	} else if rp.Denied {
		c.violation(fmt.Sprintf("C09|admissible-request-denied|secure=%v", cs.Secure),
			fmt.Sprintf("%s from %s:%d with AllowedIPs=%q Secure=%v was denied", pn, cs.Client, cs.Port, cs.List, cs.Secure), cs)
	}
	c.outcome(fmt.Sprintf("gate:denied=%v", rp.Denied))
}

func init() {
	vRegister(&vCheck{
		id: "C09", level: "exploration", flavour: "vtime",
		shards: func(string) int { return 8 },
		rule:   "complete product of 26 client address strings (IPv4, IPv6, IPv4-mapped, malformed, zone-qualified) x ~200 allow-lists (every single address, 10.0.0.1/p and 10.128.0.0/p for all p in 0..32, IPv6 and mapped CIDRs, malformed entries, all 100 two-element lists over a 10-entry alphabet) at the request filter (isIPAllowed) and the connection filter (Server.isIPAllowed), against an independent bit-arithmetic oracle with its own address parser; plus the gating clause: every NFSv3/MOUNT procedure x {listed, unlisted, mapped, malformed client} x ports {0,1,1023,1024,65535} x Secure through HandleCall, observing MSG_DENIED, the backend log and the handle table. Distinct non-trivial = distinct (seam, client, list) with a non-empty list.",
		assumptions: []string{"an IPv4 client tested against an IPv6 CIDR of prefix 0 (and similar cross-family cases) is not judged: the property does not say which family wins",
			"address strings in the alphabet have an unambiguous reading (no leading zeros except as explicit malformed cases)"},
		run: func(c *vCtx) {
			e, err := vNewEnv(ExportOptions{}, nil)
			vMust(err, "env")
			defer e.close()
			lists := c09Lists()
			idx := 0
			for _, seam := range []string{"auth", "conn"} {
				for _, l := range lists {
					idx++
					if !c.mine(idx) {
						continue
					}
					for _, cl := range c09Clients {
						cs := c09Case{Seam: seam, Client: cl, List: l}
						c09Judge(c, cs, e.srv)
						c.res.Distinct++
						if cl == "::ffff:10.0.0.1" {
							c.sample(cs)
						}
					}
				}
			}
			// gating clause
			type pp struct{ prog, proc uint32 }
			var procs []pp
			for p := uint32(0); p <= 21; p++ {
				procs = append(procs, pp{wire.ProgNFS, p})
			}
			for p := uint32(0); p <= 5; p++ {
				procs = append(procs, pp{wire.ProgMount, p})
			}
			gateLists := [][]string{{"10.0.0.1"}, {"10.0.0.0/24", "abc"}, nil}
			gateClients := []string{"10.0.0.1", "10.0.1.1", "::ffff:10.0.0.1", "abc", ""}
			for _, l := range gateLists {
				for _, cl := range gateClients {
					for _, port := range []int{0, 1, 1023, 1024, 65535} {
						for _, sec := range []bool{false, true} {
							if !c.thorough() && port != 1023 && port != 1024 && !(sec && (port == 0 || port == 65535)) {
								continue
							}
							for _, p := range procs {
								idx++
								if !c.mine(idx) {
									continue
								}
								cs := c09Case{Seam: "gate", Client: cl, Port: port, Secure: sec, List: l, Prog: p.prog, Proc: p.proc}
								c09Gate(c, cs)
								c.res.Distinct++
							}
						}
					}
				}
			}
			c.res.Bounds["clients"] = len(c09Clients)
			c.res.Bounds["lists"] = len(lists)
		},
		replay: func(c *vCtx, raw json.RawMessage) {
			var cs c09Case
			vMust(json.Unmarshal(raw, &cs), "case")
			if cs.Seam == "gate" {
				c09Gate(c, cs)
				return
			}
			e, err := vNewEnv(ExportOptions{}, nil)
			vMust(err, "env")
			defer e.close()
			c09Judge(c, cs, e.srv)
		},
	})
}
