package main

// Source-to-source instrumentation for the "sched" flavour: every
// synchronisation construct of package absnfs is rewritten to a call into the
// scheduler-visible shims (vsched, vsync, vatomic, vctx, vstime). The rewriter
// is general (it works on whatever is in the working tree) and refuses to
// continue when it meets something it cannot translate.

import (
	"bytes"
	"fmt"
	"go/ast"
	"go/format"
	"go/importer"
	"go/parser"
	"go/token"
	"go/types"
	"io"
	"os"
	"os/exec"
	"path/filepath"
	"reflect"
	"strconv"
	"strings"
)

const shimBase = "github.com/absfs/absnfs/internal/verif/"

// files that only keep statistics / log: blocking is modelled, no preemption points
var quietFiles = map[string]bool{"metrics.go": true, "metrics_api.go": true, "logger.go": true}

func init() {
	warmFlavours = []string{"vtime", "plain", "sched"}
	genSched = genSchedImpl
}

type rewriter struct {
	fset *token.FileSet
	info *types.Info
	tmp  int
	errs []string
}

func exportLookup() (func(path string) (io.ReadCloser, error), error) {
	cmd := exec.Command("go", "list", "-export", "-deps", "-f", "{{.ImportPath}}={{.Export}}", ".")
	cmd.Dir = repoDir
	var stderr bytes.Buffer
	cmd.Stderr = &stderr
	out, err := cmd.Output()
	if err != nil {
		return nil, fmt.Errorf("go list -export: %v\n%s", err, stderr.String())
	}
	m := map[string]string{}
	for _, l := range strings.Split(string(out), "\n") {
		if i := strings.IndexByte(l, '='); i > 0 && len(l) > i+1 {
			m[l[:i]] = l[i+1:]
		}
	}
	return func(path string) (io.ReadCloser, error) {
		f, ok := m[path]
		if !ok {
			return nil, fmt.Errorf("no export data for %q", path)
		}
		return os.Open(f)
	}, nil
}

func genSchedImpl(ovDir string, srcs []string, repl map[string]string) error {
	fset := token.NewFileSet()
	var files []*ast.File
	for _, n := range srcs {
		f, err := parser.ParseFile(fset, filepath.Join(repoDir, n), nil, parser.SkipObjectResolution)
		if err != nil {
			return fmt.Errorf("parse %s: %v", n, err)
		}
		files = append(files, f)
	}
	lookup, err := exportLookup()
	if err != nil {
		return err
	}
	info := &types.Info{Types: map[ast.Expr]types.TypeAndValue{}, Uses: map[*ast.Ident]types.Object{}}
	conf := types.Config{Importer: importer.ForCompiler(fset, "gc", lookup), Error: func(error) {}}
	if _, err := conf.Check("github.com/absfs/absnfs", fset, files, info); err != nil {
		return fmt.Errorf("type-check of the working tree failed: %v", err)
	}
	for i, f := range files {
		name := srcs[i]
		rw := &rewriter{fset: fset, info: info}
		quiet := quietFiles[name]
		rw.imports(f, quiet)
		rw.walk(f)
		if len(rw.errs) > 0 {
			return fmt.Errorf("%s: cannot instrument: %s", name, strings.Join(rw.errs, "; "))
		}
		f.Comments = nil
		var buf bytes.Buffer
		if err := format.Node(&buf, fset, f); err != nil {
			return fmt.Errorf("print %s: %v", name, err)
		}
		buf.WriteString("\nvar _ = vsched.Active\n")
		p := filepath.Join(ovDir, name)
		if err := writeIfChanged(p, buf.Bytes()); err != nil {
			return err
		}
		repl[filepath.Join(repoDir, name)] = p
	}
	return nil
}

// imports redirects the synchronisation packages to their shims and adds vsched.
func (rw *rewriter) imports(f *ast.File, quiet bool) {
	m := map[string]string{"sync": "vsync", "sync/atomic": "vatomic", "context": "vctx", "time": "vstime"}
	if quiet {
		m["sync"] = "vsyncq"
		delete(m, "sync/atomic")
		delete(m, "context") // only handed to the logging library
	}
	for _, im := range f.Imports {
		p, _ := strconv.Unquote(im.Path.Value)
		shim, ok := m[p]
		if !ok {
			continue
		}
		local := p[strings.LastIndexByte(p, '/')+1:]
		if im.Name != nil {
			local = im.Name.Name
		}
		im.Name = ast.NewIdent(local)
		im.Path.Value = strconv.Quote(shimBase + shim)
	}
	// add the vsched import to the first import declaration (or a new one)
	spec := &ast.ImportSpec{Name: ast.NewIdent("vsched"), Path: &ast.BasicLit{Kind: token.STRING, Value: strconv.Quote(shimBase + "vsched")}}
	for _, d := range f.Decls {
		if gd, ok := d.(*ast.GenDecl); ok && gd.Tok == token.IMPORT {
			gd.Specs = append(gd.Specs, spec)
			if gd.Lparen == token.NoPos {
				gd.Lparen = gd.Pos()
				gd.Rparen = gd.End()
			}
			f.Imports = append(f.Imports, spec)
			return
		}
	}
	gd := &ast.GenDecl{Tok: token.IMPORT, Specs: []ast.Spec{spec}}
	f.Decls = append([]ast.Decl{gd}, f.Decls...)
	f.Imports = append(f.Imports, spec)
}

func sel(pkg, name string) *ast.SelectorExpr {
	return &ast.SelectorExpr{X: ast.NewIdent(pkg), Sel: ast.NewIdent(name)}
}

func call(fun ast.Expr, args ...ast.Expr) *ast.CallExpr { return &ast.CallExpr{Fun: fun, Args: args} }

func method(x ast.Expr, name string, args ...ast.Expr) *ast.CallExpr {
	return call(&ast.SelectorExpr{X: x, Sel: ast.NewIdent(name)}, args...)
}

func (rw *rewriter) fresh(prefix string) *ast.Ident {
	rw.tmp++
	return ast.NewIdent(fmt.Sprintf("_v%s%d", prefix, rw.tmp))
}

func (rw *rewriter) isChan(e ast.Expr) bool {
	tv, ok := rw.info.Types[e]
	if !ok || tv.Type == nil {
		return false
	}
	_, is := tv.Type.Underlying().(*types.Chan)
	return is
}

var (
	exprType  = reflect.TypeOf((*ast.Expr)(nil)).Elem()
	stmtType  = reflect.TypeOf((*ast.Stmt)(nil)).Elem()
	nodeType  = reflect.TypeOf((*ast.Node)(nil)).Elem()
	identType = reflect.TypeOf((*ast.Ident)(nil))
)

// walk rewrites every expression and statement reachable from n in place.
func (rw *rewriter) walk(n ast.Node) {
	if n == nil {
		return
	}
	v := reflect.ValueOf(n)
	if v.Kind() != reflect.Ptr || v.IsNil() {
		return
	}
	v = v.Elem()
	if v.Kind() != reflect.Struct {
		return
	}
	for i := 0; i < v.NumField(); i++ {
		f := v.Field(i)
		if !f.CanSet() {
			continue
		}
		rw.field(f)
	}
}

func (rw *rewriter) field(f reflect.Value) {
	switch f.Kind() {
	case reflect.Interface:
		if f.IsNil() {
			return
		}
		switch {
		case f.Type() == exprType:
			f.Set(reflect.ValueOf(rw.expr(f.Interface().(ast.Expr))))
		case f.Type() == stmtType:
			f.Set(reflect.ValueOf(rw.stmt(f.Interface().(ast.Stmt))))
		default:
			if n, ok := f.Interface().(ast.Node); ok {
				rw.walk(n)
			}
		}
	case reflect.Ptr:
		if f.IsNil() || f.Type() == identType {
			return
		}
		if n, ok := f.Interface().(ast.Node); ok {
			if _, isObj := f.Interface().(*ast.Object); isObj {
				return
			}
			rw.walk(n)
		}
	case reflect.Slice:
		et := f.Type().Elem()
		switch {
		case et == stmtType:
			l := f.Interface().([]ast.Stmt)
			for i := range l {
				l[i] = rw.stmt(l[i])
			}
		case et == exprType:
			l := f.Interface().([]ast.Expr)
			for i := range l {
				l[i] = rw.expr(l[i])
			}
		default:
			for i := 0; i < f.Len(); i++ {
				rw.field(f.Index(i))
			}
		}
	}
}

func (rw *rewriter) chanTypeExpr(elem ast.Expr) ast.Expr {
	return &ast.StarExpr{X: &ast.IndexExpr{X: sel("vsched", "Chan"), Index: elem}}
}

func (rw *rewriter) expr(e ast.Expr) ast.Expr {
	if e == nil {
		return nil
	}
	switch x := e.(type) {
	case *ast.ChanType:
		return rw.chanTypeExpr(rw.expr(x.Value))
	case *ast.UnaryExpr:
		if x.Op == token.ARROW {
			return method(rw.expr(x.X), "Recv")
		}
	case *ast.CallExpr:
		if id, ok := x.Fun.(*ast.Ident); ok {
			switch id.Name {
			case "make":
				if ct, ok := x.Args[0].(*ast.ChanType); ok {
					fun := &ast.IndexExpr{X: sel("vsched", "NewChan"), Index: rw.expr(ct.Value)}
					var rest []ast.Expr
					for _, a := range x.Args[1:] {
						rest = append(rest, rw.expr(a))
					}
					return call(fun, rest...)
				}
			case "close":
				if len(x.Args) == 1 {
					return method(rw.expr(x.Args[0]), "Close")
				}
			case "len", "cap":
				if len(x.Args) == 1 && rw.isChan(x.Args[0]) {
					name := "Len"
					if id.Name == "cap" {
						name = "Cap"
					}
					return method(rw.expr(x.Args[0]), name)
				}
			}
		}
	case *ast.FuncLit:
		rw.walk(x.Type)
		x.Body = rw.stmt(x.Body).(*ast.BlockStmt)
		return x
	case *ast.SelectorExpr:
		// net.Listen is the one environment call the harness must own: it goes through a
		// package-level variable (default: the real net.Listen) defined in the harness
		if id, ok := x.X.(*ast.Ident); ok && id.Name == "net" && x.Sel.Name == "Listen" {
			if _, isPkg := rw.info.Uses[id].(*types.PkgName); isPkg {
				return ast.NewIdent("zzNetListen")
			}
		}
	}
	rw.walk(e)
	return e
}

func isRecv(e ast.Expr) (*ast.UnaryExpr, bool) {
	for {
		p, ok := e.(*ast.ParenExpr)
		if !ok {
			break
		}
		e = p.X
	}
	u, ok := e.(*ast.UnaryExpr)
	return u, ok && u.Op == token.ARROW
}

func (rw *rewriter) stmt(s ast.Stmt) ast.Stmt {
	if s == nil {
		return nil
	}
	switch x := s.(type) {
	case *ast.SendStmt:
		return &ast.ExprStmt{X: method(rw.expr(x.Chan), "Send", rw.expr(x.Value))}
	case *ast.AssignStmt:
		if len(x.Lhs) == 2 && len(x.Rhs) == 1 {
			if u, ok := isRecv(x.Rhs[0]); ok {
				x.Rhs[0] = method(rw.expr(u.X), "Recv2")
				for i := range x.Lhs {
					x.Lhs[i] = rw.expr(x.Lhs[i])
				}
				return x
			}
		}
	case *ast.DeclStmt:
		if gd, ok := x.Decl.(*ast.GenDecl); ok {
			for _, sp := range gd.Specs {
				if vs, ok := sp.(*ast.ValueSpec); ok && len(vs.Names) == 2 && len(vs.Values) == 1 {
					if u, ok := isRecv(vs.Values[0]); ok {
						vs.Values[0] = method(rw.expr(u.X), "Recv2")
						if vs.Type != nil {
							vs.Type = rw.expr(vs.Type)
						}
						return x
					}
				}
			}
		}
	case *ast.GoStmt:
		return rw.goStmt(x)
	case *ast.SelectStmt:
		return rw.selectStmt(x, nil)
	case *ast.RangeStmt:
		if rw.isChan(x.X) {
			return rw.rangeChan(x)
		}
		if rw.isMap(x.X) && rw.simpleOperand(x.X) && (x.Key != nil || x.Value != nil) {
			return rw.rangeMap(x)
		}
	case *ast.LabeledStmt:
		if ss, ok := x.Stmt.(*ast.SelectStmt); ok {
			return rw.selectStmt(ss, x.Label)
		}
	}
	rw.walk(s)
	return s
}

func (rw *rewriter) isMap(e ast.Expr) bool {
	tv, ok := rw.info.Types[e]
	if !ok || tv.Type == nil {
		return false
	}
	_, is := tv.Type.Underlying().(*types.Map)
	return is
}

// simpleOperand: an identifier or a chain of field selections (safe to evaluate twice).
func (rw *rewriter) simpleOperand(e ast.Expr) bool {
	switch x := e.(type) {
	case *ast.Ident:
		return true
	case *ast.SelectorExpr:
		return rw.simpleOperand(x.X)
	case *ast.ParenExpr:
		return rw.simpleOperand(x.X)
	}
	return false
}

// rangeMap makes map iteration order deterministic (Go randomises it, which would make a
// recorded schedule irreproducible): `for k, v := range m` iterates over vsched.MapKeys(m),
// keys in a canonical order, skipping keys deleted meanwhile (as Go's range does).
func (rw *rewriter) rangeMap(r *ast.RangeStmt) ast.Stmt {
	m := rw.expr(r.X)
	keyVar := ast.Expr(rw.fresh("k"))
	var pre []ast.Stmt
	okVar := rw.fresh("ok")
	if r.Key != nil {
		if id, isId := r.Key.(*ast.Ident); !isId || id.Name != "_" {
			if r.Tok == token.DEFINE {
				keyVar = r.Key
			} else {
				pre = append(pre, &ast.AssignStmt{Lhs: []ast.Expr{rw.expr(r.Key)}, Tok: token.ASSIGN, Rhs: []ast.Expr{keyVar}})
			}
		}
	}
	idx := &ast.IndexExpr{X: m, Index: keyVar}
	valLhs := ast.Expr(ast.NewIdent("_"))
	valTok := token.DEFINE
	if r.Value != nil {
		if id, isId := r.Value.(*ast.Ident); !isId || id.Name != "_" {
			if r.Tok == token.DEFINE {
				valLhs = r.Value
			} else {
				// assignment form: read into a fresh variable, then assign
				tmp := rw.fresh("v")
				pre = append(pre, &ast.AssignStmt{Lhs: []ast.Expr{rw.expr(r.Value)}, Tok: token.ASSIGN, Rhs: []ast.Expr{tmp}})
				valLhs = tmp
			}
		}
	}
	fetch := &ast.AssignStmt{Lhs: []ast.Expr{valLhs, okVar}, Tok: valTok, Rhs: []ast.Expr{idx}}
	skip := &ast.IfStmt{Cond: &ast.UnaryExpr{Op: token.NOT, X: okVar}, Body: &ast.BlockStmt{List: []ast.Stmt{&ast.BranchStmt{Tok: token.CONTINUE}}}}
	body := rw.stmt(r.Body).(*ast.BlockStmt)
	list := append([]ast.Stmt{fetch, skip}, pre...)
	// `pre` assignments must come after the fetch; reorder: fetch, skip, then key/value assignments
	body.List = append(list, body.List...)
	return &ast.RangeStmt{Key: ast.NewIdent("_"), Value: keyVar, Tok: token.DEFINE, X: call(sel("vsched", "MapKeys"), m), Body: body}
}

func (rw *rewriter) goStmt(g *ast.GoStmt) ast.Stmt {
	c := g.Call
	if fl, ok := c.Fun.(*ast.FuncLit); ok && len(c.Args) == 0 {
		return &ast.ExprStmt{X: call(sel("vsched", "Go"), rw.expr(fl))}
	}
	// bind the arguments now (they are evaluated by the spawning goroutine)
	var pre []ast.Stmt
	var args []ast.Expr
	for _, a := range c.Args {
		id := rw.fresh("a")
		pre = append(pre, &ast.AssignStmt{Lhs: []ast.Expr{id}, Tok: token.DEFINE, Rhs: []ast.Expr{rw.expr(a)}})
		args = append(args, id)
	}
	inner := &ast.CallExpr{Fun: rw.expr(c.Fun), Args: args, Ellipsis: c.Ellipsis}
	lit := &ast.FuncLit{Type: &ast.FuncType{Params: &ast.FieldList{}}, Body: &ast.BlockStmt{List: []ast.Stmt{&ast.ExprStmt{X: inner}}}}
	spawn := &ast.ExprStmt{X: call(sel("vsched", "Go"), lit)}
	if len(pre) == 0 {
		return spawn
	}
	return &ast.BlockStmt{List: append(pre, spawn)}
}

func (rw *rewriter) rangeChan(r *ast.RangeStmt) ast.Stmt {
	val, ok := rw.fresh("r"), rw.fresh("ok")
	body := []ast.Stmt{
		&ast.AssignStmt{Lhs: []ast.Expr{val, ok}, Tok: token.DEFINE, Rhs: []ast.Expr{method(rw.expr(r.X), "Recv2")}},
		&ast.IfStmt{Cond: &ast.UnaryExpr{Op: token.NOT, X: ok}, Body: &ast.BlockStmt{List: []ast.Stmt{&ast.BranchStmt{Tok: token.BREAK}}}},
	}
	if r.Key != nil {
		if id, isID := r.Key.(*ast.Ident); !isID || id.Name != "_" {
			body = append(body, &ast.AssignStmt{Lhs: []ast.Expr{rw.expr(r.Key)}, Tok: r.Tok, Rhs: []ast.Expr{val}})
		} else {
			body = append(body, &ast.AssignStmt{Lhs: []ast.Expr{ast.NewIdent("_")}, Tok: token.ASSIGN, Rhs: []ast.Expr{val}})
		}
	} else {
		body = append(body, &ast.AssignStmt{Lhs: []ast.Expr{ast.NewIdent("_")}, Tok: token.ASSIGN, Rhs: []ast.Expr{val}})
	}
	inner := rw.stmt(r.Body).(*ast.BlockStmt)
	body = append(body, inner.List...)
	return &ast.ForStmt{Body: &ast.BlockStmt{List: body}}
}

func (rw *rewriter) selectStmt(s *ast.SelectStmt, label *ast.Ident) ast.Stmt {
	if len(s.Body.List) == 0 {
		return &ast.ExprStmt{X: call(sel("vsched", "Block"))}
	}
	var pre []ast.Stmt
	var caseArgs []ast.Expr
	var clauses []ast.Stmt
	hasDefault := false
	idx := 0
	for _, cl := range s.Body.List {
		cc := cl.(*ast.CommClause)
		var head []ast.Stmt
		var tag ast.Expr
		if cc.Comm == nil {
			hasDefault = true
			tag = nil // emitted as the switch's default clause (Select returns -1)
		} else {
			k := rw.fresh("k")
			switch c := cc.Comm.(type) {
			case *ast.SendStmt:
				pre = append(pre, &ast.AssignStmt{Lhs: []ast.Expr{k}, Tok: token.DEFINE, Rhs: []ast.Expr{call(sel("vsched", "CaseSend"), rw.expr(c.Chan), rw.expr(c.Value))}})
			case *ast.ExprStmt:
				u, ok := isRecv(c.X)
				if !ok {
					rw.errs = append(rw.errs, "select clause that is neither send nor receive")
					continue
				}
				pre = append(pre, &ast.AssignStmt{Lhs: []ast.Expr{k}, Tok: token.DEFINE, Rhs: []ast.Expr{call(sel("vsched", "CaseRecv"), rw.expr(u.X))}})
			case *ast.AssignStmt:
				u, ok := isRecv(c.Rhs[0])
				if !ok {
					rw.errs = append(rw.errs, "select clause assignment without receive")
					continue
				}
				pre = append(pre, &ast.AssignStmt{Lhs: []ast.Expr{k}, Tok: token.DEFINE, Rhs: []ast.Expr{call(sel("vsched", "CaseRecv"), rw.expr(u.X))}})
				rhs := []ast.Expr{&ast.SelectorExpr{X: k, Sel: ast.NewIdent("Val")}}
				if len(c.Lhs) == 2 {
					rhs = append(rhs, &ast.SelectorExpr{X: k, Sel: ast.NewIdent("Ok")})
				}
				lhs := make([]ast.Expr, len(c.Lhs))
				for i := range c.Lhs {
					lhs[i] = rw.expr(c.Lhs[i])
				}
				head = append(head, &ast.AssignStmt{Lhs: lhs, Tok: c.Tok, Rhs: rhs})
				// keep ":=" legal even if a name is only declared, as in the original
			default:
				rw.errs = append(rw.errs, fmt.Sprintf("unsupported select clause %T", cc.Comm))
				continue
			}
			caseArgs = append(caseArgs, k)
			tag = &ast.BasicLit{Kind: token.INT, Value: strconv.Itoa(idx)}
			idx++
		}
		body := head
		for _, b := range cc.Body {
			body = append(body, rw.stmt(b))
		}
		if tag == nil {
			clauses = append(clauses, &ast.CaseClause{Body: body})
		} else {
			clauses = append(clauses, &ast.CaseClause{List: []ast.Expr{tag}, Body: body})
		}
	}
	if !hasDefault {
		// keeps the switch a terminating statement whenever the select was one
		clauses = append(clauses, &ast.CaseClause{Body: []ast.Stmt{&ast.ExprStmt{X: call(ast.NewIdent("panic"), &ast.BasicLit{Kind: token.STRING, Value: strconv.Quote("vsched: select returned without a clause")})}}})
	}
	hd := ast.NewIdent("false")
	if hasDefault {
		hd = ast.NewIdent("true")
	}
	args := append([]ast.Expr{hd}, caseArgs...)
	var sw ast.Stmt = &ast.SwitchStmt{Tag: call(sel("vsched", "Select"), args...), Body: &ast.BlockStmt{List: clauses}}
	if label != nil {
		sw = &ast.LabeledStmt{Label: label, Stmt: sw}
	}
	return &ast.BlockStmt{List: append(pre, sw)}
}
