package absnfs

// C15 — arbitrary client bytes cannot crash, desynchronise or exhaust the server.
// Bounded-exhaustive enumeration of byte streams (every cut point, byte
// replacements, length-field replacements, all short word streams, oversize
// fragment headers) fed to the real record-marking connection handler over a
// scripted connection; each stream on a fresh server, followed by a probe
// connection.

import (
	"strings"
	"encoding/binary"
	"encoding/json"
	"fmt"
	"time"

	"github.com/absfs/absnfs/internal/verif/wire"
)

type c15Case struct {
	Kind string `json:"kind"` // prefix | byte | field | words | frag
	Pos  int    `json:"pos,omitempty"`
	Val  uint32 `json:"val,omitempty"`
	Ws   []uint32 `json:"words,omitempty"`
}

// c15Base builds the base stream: one valid call per NFS procedure and MOUNT
// procedure, each a single-fragment record, and returns the record boundaries.
func c15Base(w *c14World) (stream []byte, starts []int) {
	xid := uint32(0x1000)
	add := func(prog, proc uint32) {
		xid++
		args := c14Args(prog, proc, w.root, w.file)
		msg := wire.Call(xid, prog, 3, proc, vCredSys(0, 0, []uint32{1, 2}), args)
		starts = append(starts, len(stream))
		stream = append(stream, wire.Record(msg)...)
	}
	for p := uint32(0); p <= 21; p++ {
		add(wire.ProgNFS, p)
	}
	for p := uint32(0); p <= 5; p++ {
		add(wire.ProgMount, p)
	}
	return stream, starts
}

// c15Calls parses a stream independently: xids of the records that are
// complete and decode as RPC calls, up to the first one that does not.
func c15Calls(stream []byte) []uint32 {
	var xids []uint32
	b := stream
	for {
		var rec []byte
		total := 0
		complete := false
		for len(b) >= 4 {
			h := binary.BigEndian.Uint32(b)
			n := int(h &^ 0x80000000)
			total += n
			if total > 1<<20 || len(b)-4 < n {
				return xids
			}
			rec = append(rec, b[4:4+n]...)
			b = b[4+n:]
			if h&0x80000000 != 0 {
				complete = true
				break
			}
		}
		if !complete {
			return xids
		}
		// minimal call header: xid, msg_type=0, rpcvers, prog, vers, proc, cred (flavor,len<=400,body), verf
		d := &wire.Dec{B: rec}
		x := d.U32()
		if d.U32() != 0 || d.Err != nil {
			return xids
		}
		d.U32()
		d.U32()
		d.U32()
		d.U32()
		for i := 0; i < 2; i++ {
			d.U32()
			n := d.U32()
			if d.Err != nil || n > 400 {
				return xids
			}
			p := int(n+3) &^ 3
			if d.Left() < p {
				return xids
			}
			d.Off += p
		}
		if d.Err != nil {
			return xids
		}
		xids = append(xids, x)
	}
}

func c15Stream(base []byte, starts []int, cs c15Case) []byte {
	switch cs.Kind {
	case "prefix":
		return append([]byte(nil), base[:cs.Pos]...)
	case "byte":
		s := append([]byte(nil), base...)
		s[cs.Pos] = byte(cs.Val)
		return s
	case "field":
		s := append([]byte(nil), base...)
		binary.BigEndian.PutUint32(s[cs.Pos:], cs.Val)
		return s
	case "words":
		var s []byte
		for _, w := range cs.Ws {
			s = binary.BigEndian.AppendUint32(s, w)
		}
		return s
	case "frag":
		s := binary.BigEndian.AppendUint32(nil, cs.Val)
		return append(s, base[:cs.Pos]...)
	case "multi":
		// cs.Pos non-final fragments of cs.Val bytes each, all delivered, then a final 4-byte fragment
		var s []byte
		for i := 0; i < cs.Pos; i++ {
			s = binary.BigEndian.AppendUint32(s, cs.Val)
			s = append(s, make([]byte, cs.Val)...)
		}
		s = binary.BigEndian.AppendUint32(s, 0x80000004)
		return append(s, 0, 0, 0, 0)
	}
	return nil
}

// c15RawBase is the base stream without record marks (the raw transport mode that
// NewServer selects when UseRecordMarking is off).
func c15RawBase(base []byte, starts []int) []byte {
	var raw []byte
	for i, st := range starts {
		end := len(base)
		if i+1 < len(starts) {
			end = starts[i+1]
		}
		raw = append(raw, base[st+4:end]...)
	}
	return raw
}

// c15Raw runs one stream through the raw-mode handler: crash, hang, allocation and
// availability clauses only (replies are not framed in this mode).
func c15Raw(c *vCtx, cs c15Case) {
	c.beat(func() any { return cs })
	c.res.Evaluations++
	w := c14Setup("normal")
	defer w.e.close()
	base, starts := c15Base(w)
	raw := c15RawBase(base, starts)
	var stream []byte
	switch cs.Kind {
	case "rawprefix":
		stream = append(stream, raw[:cs.Pos]...)
	case "rawfield":
		stream = append(stream, raw...)
		binary.BigEndian.PutUint32(stream[cs.Pos:], cs.Val)
	}
	var returned, closed bool
	var pan any
	alloc := allocDelta(func() {
		_, returned, closed, pan = vServeStreamRaw(w.e, stream, "10.0.0.1", 800, 120*time.Second)
	})
	bad := func(sig, msg string) { c.violation("C15|"+sig+"|stream="+cs.Kind, msg, cs) }
	if pan != nil {
		bad("panic-in-connection-handler", fmt.Sprintf("panic: %v", pan))
	}
	if !returned {
		bad("connection-handler-hangs", "the raw-mode connection handler did not return after the client closed its side")
		return
	}
	if !closed {
		bad("connection-not-closed", "the handler returned without closing the connection")
	}
	if lim := uint64(6<<20 + 16*len(stream)); alloc > lim {
		bad("allocation-exceeds-bounds", fmt.Sprintf("%d bytes allocated while serving a %d-byte raw stream", alloc, len(stream)))
	}
	var a wire.Enc
	a.FH(w.root)
	probe := append(wire.Record(wire.Call(0x7001, wire.ProgNFS, 3, 0, vCredSys(0, 0, nil), nil)),
		wire.Record(wire.Call(0x7002, wire.ProgNFS, 3, wire.GETATTR, vCredSys(0, 0, nil), a.B))...)
	pout, pret, _, ppan := vServeStream(w.e, probe, "10.0.0.2", 801, 120*time.Second)
	if precs, _ := vSplitRecords(pout); ppan != nil || !pret || len(precs) != 2 {
		bad("server-stops-serving-other-connections", fmt.Sprintf("probe connection after the raw stream: returned=%v panic=%v replies=%d", pret, ppan, len(precs)))
	}
	c.outcome("raw")
}

func c15One(c *vCtx, cs c15Case) {
	if strings.HasPrefix(cs.Kind, "raw") {
		c15Raw(c, cs)
		return
	}
	c.beat(func() any { return cs })
	c.res.Evaluations++
	w := c14Setup("normal")
	defer w.e.close()
	base, starts := c15Base(w)
	stream := c15Stream(base, starts, cs)
	var out []byte
	var returned, closed bool
	var pan any
	unread := 0
	alloc := allocDelta(func() {
		out, returned, closed, pan, unread = vServeStreamN(w.e, stream, "10.0.0.1", 800, 120*time.Second)
	})
	sigk := cs.Kind
	bad := func(sig, msg string) { c.violation("C15|"+sig+"|stream="+sigk, msg, cs) }
	if pan != nil {
		bad("panic-in-connection-handler", fmt.Sprintf("panic: %v", pan))
	}
	if !returned {
		bad("connection-handler-hangs", "the connection handler did not return after the client closed its side")
		return
	}
	if !closed {
		bad("connection-not-closed", "the handler returned without closing the connection")
	}
	if cs.Kind == "multi" && int(cs.Val)*cs.Pos+4 > 1<<20 {
		// one record larger than the documented 1 MiB maximum: the stream is undecodable from the
		// fragment header that crosses the limit, the server must stop reading there
		if consumed := len(stream) - unread; consumed > 1<<20+4*(cs.Pos+1)+65536 {
			bad("oversize-record-buffered", fmt.Sprintf("the server consumed %d bytes of a single record made of %d fragments of %d bytes; the documented maximum is %d", consumed, cs.Pos, cs.Val, 1<<20))
		}
	}
	if lim := uint64(6<<20 + 16*len(stream)); alloc > lim {
		bad("allocation-exceeds-bounds", fmt.Sprintf("%d bytes allocated while serving a %d-byte stream", alloc, len(stream)))
	}
	recs, rest := vSplitRecords(out)
	if len(rest) != 0 {
		bad("reply-stream-not-record-marked", fmt.Sprintf("%d stray bytes after %d reply records", len(rest), len(recs)))
	}
	calls := c15Calls(stream)
	if len(recs) > len(calls) {
		bad("more-replies-than-decodable-calls", fmt.Sprintf("%d replies for %d decodable calls", len(recs), len(calls)))
	}
	for i, r := range recs {
		rp, err := wire.ParseReply(r)
		if err != nil {
			bad("reply-malformed", err.Error())
			break
		}
		if i < len(calls) && rp.Xid != calls[i] {
			bad("reply-xid-out-of-order", fmt.Sprintf("reply %d has xid %#x, call %d has xid %#x", i, rp.Xid, i, calls[i]))
			break
		}
	}
	c.outcome(fmt.Sprintf("replies=%d/%d", len(recs), len(calls)))
	// the server keeps serving other connections
	var a wire.Enc
	a.FH(w.root)
	probe := append(wire.Record(wire.Call(0x7001, wire.ProgNFS, 3, 0, vCredSys(0, 0, nil), nil)),
		wire.Record(wire.Call(0x7002, wire.ProgNFS, 3, wire.GETATTR, vCredSys(0, 0, nil), a.B))...)
	pout, pret, _, ppan := vServeStream(w.e, probe, "10.0.0.2", 801, 120*time.Second)
	precs, _ := vSplitRecords(pout)
	if ppan != nil || !pret || len(precs) != 2 {
		bad("server-stops-serving-other-connections", fmt.Sprintf("probe connection after the stream: returned=%v panic=%v replies=%d", pret, ppan, len(precs)))
		return
	}
	if rp, err := wire.ParseReply(precs[1]); err != nil || rp.Denied || rp.AcceptStat != 0 {
		bad("server-stops-serving-other-connections", fmt.Sprintf("probe GETATTR reply: %v %+v", err, rp))
	} else if res, err := wire.DecodeNFS(wire.GETATTR, rp.Result); err != nil || res.Status != 0 {
		bad("server-stops-serving-other-connections", fmt.Sprintf("probe GETATTR on the root handle: %v status=%v", err, res))
	}
}

func init() {
	vRegister(&vCheck{
		id: "C15", level: "exploration", flavour: "vtime",
		shards: func(string) int { return 16 },
		rule: "bounded-exhaustive byte streams derived from a base stream of one valid record-marked call per NFSv3 procedure (22) and MOUNT procedure (6): (a) every byte-prefix (connection cut at every point); (b) every byte of every record's first 56 bytes (thorough: every byte of the stream) replaced by each of {0x00,0x01,0x7F,0x80,0xFF}; (c) every aligned 32-bit word of the stream (fragment headers, lengths, counts, handles, discriminants) replaced by each of {0,2^16,2^31-1,2^31,2^32-1}; (d) every stream of 1..3 words over {0,1,2,3,0x80000000,0x80000004,0x80000028,100003,100005,0xFFFFFFFF}; (e) fragment headers declaring 2^20+1 / 2^31-1 / 2^20 bytes followed by 0, 4 and 2800 bytes; (f) records made of 2..40 fully delivered non-final fragments of 64 KiB / 512 KiB / 1 MiB each (each within the limit, the sum below, at and above 1 MiB): above the limit the server must stop reading within 64 KiB of the limit; (g) the same base stream without record marks through the raw-mode handler (every 4th prefix, thorough every prefix; every word replaced by the five values): crash, hang, allocation and availability clauses. Each stream is fed to the real handleConnectionWithRecordMarking over a scripted connection on a fresh server. Oracle: no panic escapes, the handler returns and closes the connection once the client side is closed, replies are record-marked well-formed RPC replies whose xids are a prefix of the xids of the decodable calls in arrival order (independent parser), allocation stays below 6 MiB + 16 x stream length, and a probe connection (NULL + GETATTR) is then answered. A crash of the process is caught by the driver.",
		assumptions: []string{"'decodable call' is decided by an independent record/RPC-header parser; the server may stop answering earlier (after a call it cannot process) but never answers out of order or more often",
			"allocation is measured with runtime.MemStats over the whole stream (server goroutines included), collector off"},
		run: func(c *vCtx) {
			w := c14Setup("normal")
			base, starts := c15Base(w)
			w.e.close()
			var cases []c15Case
			for n := 0; n <= len(base); n++ {
				cases = append(cases, c15Case{Kind: "prefix", Pos: n})
			}
			for ri, st := range starts {
				end := len(base)
				if ri+1 < len(starts) {
					end = starts[ri+1]
				}
				lim := st + 56
				if c.thorough() || lim > end {
					lim = end
				}
				for p := st; p < lim; p++ {
					for _, v := range []uint32{0x00, 0x01, 0x7f, 0x80, 0xff} {
						if uint32(base[p]) != v {
							cases = append(cases, c15Case{Kind: "byte", Pos: p, Val: v})
						}
					}
				}
			}
			for p := 0; p+4 <= len(base); p += 4 {
				for _, v := range []uint32{0, 1 << 16, 1<<31 - 1, 1 << 31, 1<<32 - 1} {
					cases = append(cases, c15Case{Kind: "field", Pos: p, Val: v})
				}
			}
			al := []uint32{0, 1, 2, 3, 0x80000000, 0x80000004, 0x80000028, 100003, 100005, 0xFFFFFFFF}
			for _, a := range al {
				cases = append(cases, c15Case{Kind: "words", Ws: []uint32{a}})
				for _, b := range al {
					cases = append(cases, c15Case{Kind: "words", Ws: []uint32{a, b}})
					for _, d := range al {
						cases = append(cases, c15Case{Kind: "words", Ws: []uint32{a, b, d}})
					}
				}
			}
			for _, h := range []uint32{0x80000000 | (1<<20 + 1), 1<<20 + 1, 0x80000000 | (1<<31 - 1), 1<<31 - 1, 0x80000000 | 1<<20, 1 << 20} {
				for _, n := range []int{0, 4, len(base)} {
					cases = append(cases, c15Case{Kind: "frag", Val: h, Pos: n})
				}
			}
			// (g) the raw transport mode: every prefix and every word replacement of the unmarked stream
			rawLen := len(c15RawBase(base, starts))
			for n := 0; n <= rawLen; n += 1 {
				if c.thorough() || n%4 == 0 || n < 64 {
					cases = append(cases, c15Case{Kind: "rawprefix", Pos: n})
				}
			}
			for p := 0; p+4 <= rawLen; p += 4 {
				for _, v := range []uint32{0, 1 << 16, 1<<31 - 1, 1 << 31, 1<<32 - 1} {
					cases = append(cases, c15Case{Kind: "rawfield", Pos: p, Val: v})
				}
			}
			// (f) records made of several fragments that are each within the limit
			for _, m := range [][2]int{{512 << 10, 2}, {512 << 10, 3}, {512 << 10, 8}, {1 << 20, 2}, {1 << 20, 4}, {64 << 10, 15}, {64 << 10, 17}, {64 << 10, 40}, {1, 3}} {
				cases = append(cases, c15Case{Kind: "multi", Val: uint32(m[0]), Pos: m[1]})
			}
			for i, cs := range cases {
				if !c.mine(i) {
					continue
				}
				c15One(c, cs)
				c.res.Distinct++
				if i%1777 == 0 {
					c.sample(cs)
				}
			}
			c.res.Bounds["base_stream_bytes"] = len(base)
			c.res.Bounds["streams"] = len(cases)
		},
		replay: func(c *vCtx, raw json.RawMessage) {
			var cs c15Case
			vMust(json.Unmarshal(raw, &cs), "case")
			c15One(c, cs)
		},
	})
}
