package absnfs

// Explicit-state search over operation histories on the real code. A state
// is the history that reaches it (live objects are rebuilt by replay); states
// are deduplicated by a canonical key of the implementation's own state.

type vHist[S any, Op any] struct {
	New     func() S
	Apply   func(s S, op Op, check bool, hist []Op) // check: judge this transition
	Enabled func(s S) []Op
	Key     func(s S) string
	Close   func(s S)
	// Stop is polled; when it returns true the search ends (capped).
	Stop func() bool
	// All makes run explore every first-level successor (no sharding).
	All bool
	// OnNew, if set, is called once for every newly discovered state with the
	// history that reached it (for observations that are functions of the state).
	OnNew func(s S, hist []Op)
}

// run explores breadth-first to the given depth. It returns the number of
// distinct states, transitions and whether the search completed.
func (e *vHist[S, Op]) run(c *vCtx, depth int) (states, transitions int64, complete bool) {
	seen := map[string]struct{}{}
	type item struct{ h []Op }
	replay := func(h []Op) S {
		s := e.New()
		for i, op := range h {
			e.Apply(s, op, false, h[:i])
		}
		return s
	}
	s0 := e.New()
	seen[e.Key(s0)] = struct{}{}
	if e.Close != nil {
		e.Close(s0)
	}
	states = 1
	frontier := []item{{}}
	complete = true
	for d := 0; d < depth && len(frontier) > 0; d++ {
		var next []item
		for _, it := range frontier {
			s := replay(it.h)
			ops := e.Enabled(s)
			if e.Close != nil {
				e.Close(s)
			}
			for i, op := range ops {
				if d == 0 && !e.All && !c.mine(i) {
					continue
				}
				if e.Stop != nil && e.Stop() {
					return states, transitions, false
				}
				hh, oo := it.h, op
				c.beat(func() any { return map[string]any{"history": hh, "then": oo} })
				s2 := replay(it.h)
				e.Apply(s2, op, true, it.h)
				transitions++
				k := e.Key(s2)
				_, known := seen[k]
				nh := make([]Op, len(it.h)+1)
				copy(nh, it.h)
				nh[len(it.h)] = op
				if !known && e.OnNew != nil {
					e.OnNew(s2, nh) // observations that depend on the state only
				}
				if e.Close != nil {
					e.Close(s2)
				}
				if known {
					continue
				}
				seen[k] = struct{}{}
				states++
				next = append(next, item{nh})
			}
		}
		frontier = next
	}
	return states, transitions, complete
}
