package absnfs

// C21, concurrent clause (sched flavour only): threads of cache operations on the
// real AttrCache / DirCache under the controlled scheduler, compared with every
// serial interleaving of the same operations executed on the real code.

import (
	"fmt"
	"os"
	"sort"
	"strings"
	"time"

	"github.com/absfs/absnfs/internal/verif/vsched"
)

type ccOp struct {
	name string
	run  func(ac *AttrCache, dc *DirCache) string
}

type ccSpec struct {
	name    string
	cap     int
	negOn   bool
	setup   func(ac *AttrCache, dc *DirCache)
	threads [][]ccOp
}

func ccAttrs(size int64) *NFSAttrs { return &NFSAttrs{Mode: 0644, Size: size, FileId: uint64(size)} }

func ccListing(names ...string) []os.FileInfo {
	out := make([]os.FileInfo, len(names))
	for i, n := range names {
		out[i] = lcFileInfo{name: n}
	}
	return out
}

var (
	ccGet = func(p string) ccOp {
		return ccOp{"Get(" + p + ")", func(ac *AttrCache, dc *DirCache) string {
			a, found := ac.Get(p)
			switch {
			case !found:
				return "miss"
			case a == nil:
				return "negative"
			}
			return fmt.Sprintf("hit:%d", a.Size)
		}}
	}
	ccPut = func(p string, v int64) ccOp {
		return ccOp{fmt.Sprintf("Put(%s,%d)", p, v), func(ac *AttrCache, dc *DirCache) string { ac.Put(p, ccAttrs(v)); return "" }}
	}
	ccPutNeg = func(p string) ccOp {
		return ccOp{"PutNegative(" + p + ")", func(ac *AttrCache, dc *DirCache) string { ac.PutNegative(p); return "" }}
	}
	ccInv = func(p string) ccOp {
		return ccOp{"Invalidate(" + p + ")", func(ac *AttrCache, dc *DirCache) string { ac.Invalidate(p); return "" }}
	}
	ccInvNegDir = func(p string) ccOp {
		return ccOp{"InvalidateNegativeInDir(" + p + ")", func(ac *AttrCache, dc *DirCache) string { ac.InvalidateNegativeInDir(p); return "" }}
	}
	ccNeg = func(on bool) ccOp {
		return ccOp{fmt.Sprintf("ConfigureNegativeCaching(%v)", on), func(ac *AttrCache, dc *DirCache) string {
			ac.ConfigureNegativeCaching(on, time.Hour)
			return ""
		}}
	}
	ccResize = func(n int) ccOp {
		return ccOp{fmt.Sprintf("Resize(%d)", n), func(ac *AttrCache, dc *DirCache) string { ac.Resize(n); return "" }}
	}
	ccClear = ccOp{"Clear", func(ac *AttrCache, dc *DirCache) string { ac.Clear(); return "" }}
	ccDGet  = func(p string) ccOp {
		return ccOp{"DirGet(" + p + ")", func(ac *AttrCache, dc *DirCache) string {
			l, ok := dc.Get(p)
			if !ok {
				return "miss"
			}
			var names []string
			for _, e := range l {
				names = append(names, e.Name())
			}
			return "hit:" + strings.Join(names, "+")
		}}
	}
	ccDPut = func(p string, names ...string) ccOp {
		return ccOp{"DirPut(" + p + "," + strings.Join(names, "+") + ")", func(ac *AttrCache, dc *DirCache) string { dc.Put(p, ccListing(names...)); return "" }}
	}
	ccDInv = func(p string) ccOp {
		return ccOp{"DirInvalidate(" + p + ")", func(ac *AttrCache, dc *DirCache) string { dc.Invalidate(p); return "" }}
	}
)

func ccNew(spec ccSpec) (*AttrCache, *DirCache) {
	ac := NewAttrCache(time.Hour, spec.cap)
	ac.ConfigureNegativeCaching(spec.negOn, time.Hour)
	dc := NewDirCache(time.Hour, spec.cap, 8)
	if spec.setup != nil {
		spec.setup(ac, dc)
	}
	return ac, dc
}

// ccState renders content (not recency) and checks the structural invariants.
func ccState(ac *AttrCache, dc *DirCache) (string, []string) {
	var bad []string
	var ents []string
	for p, e := range ac.cache {
		switch {
		case e.isNegative:
			ents = append(ents, p+"=neg")
			if !ac.enableNegative {
				bad = append(bad, "negative-entry-while-disabled|negative entry for "+p+" exists although negative caching is off")
			}
		default:
			ents = append(ents, fmt.Sprintf("%s=%d", p, e.attrs.Size))
		}
		if e.listElement == nil || e.listElement.Value != p {
			bad = append(bad, "entry-not-in-lru-list|entry "+p+" is not linked into the LRU list")
		}
	}
	if ac.accessList.Len() != len(ac.cache) {
		bad = append(bad, fmt.Sprintf("lru-list-and-map-differ|LRU list has %d elements, map %d", ac.accessList.Len(), len(ac.cache)))
	}
	if len(ac.cache) > ac.maxSize {
		bad = append(bad, fmt.Sprintf("over-capacity|%d entries, capacity %d", len(ac.cache), ac.maxSize))
	}
	sort.Strings(ents)
	var dents []string
	for p, e := range dc.entries {
		var names []string
		for _, x := range e.entries {
			names = append(names, x.Name())
		}
		dents = append(dents, p+"="+strings.Join(names, "+"))
		if e.listElement == nil || e.listElement.Value != p {
			bad = append(bad, "entry-not-in-lru-list|directory entry "+p+" is not linked into the LRU list")
		}
	}
	if dc.accessList.Len() != len(dc.entries) {
		bad = append(bad, fmt.Sprintf("lru-list-and-map-differ|directory LRU list has %d elements, map %d", dc.accessList.Len(), len(dc.entries)))
	}
	if len(dc.entries) > dc.maxEntries {
		bad = append(bad, fmt.Sprintf("over-capacity|%d directory entries, capacity %d", len(dc.entries), dc.maxEntries))
	}
	sort.Strings(dents)
	return "attr{" + strings.Join(ents, ",") + "} dir{" + strings.Join(dents, ",") + "}", bad
}

// ccSerial runs every interleaving of whole operations that keeps thread order.
func ccSerial(spec ccSpec) map[string]bool {
	out := map[string]bool{}
	idx := make([]int, len(spec.threads))
	var order [][2]int
	var rec func()
	rec = func() {
		done := true
		for t := range spec.threads {
			if idx[t] < len(spec.threads[t]) {
				done = false
				order = append(order, [2]int{t, idx[t]})
				idx[t]++
				rec()
				idx[t]--
				order = order[:len(order)-1]
			}
		}
		if done {
			ord := append([][2]int(nil), order...)
			vsched.Run(vsched.Options{Horizon: time.Minute}, func() {
				vsched.SetQuiet(true) // one deterministic sequential execution
				ac, dc := ccNew(spec)
				res := make([][]string, len(spec.threads))
				for _, o := range ord {
					res[o[0]] = append(res[o[0]], spec.threads[o[0]][o[1]].run(ac, dc))
				}
				st, _ := ccState(ac, dc)
				out[ccOutcome(spec, res, st)] = true
			})
		}
	}
	rec()
	return out
}

func ccOutcome(spec ccSpec, res [][]string, st string) string {
	var parts []string
	for t, ops := range spec.threads {
		for i, op := range ops {
			r := "?"
			if i < len(res[t]) {
				r = res[t][i]
			}
			if r != "" {
				parts = append(parts, fmt.Sprintf("T%d.%s=%s", t+1, op.name, r))
			}
		}
	}
	return strings.Join(parts, " ") + " | " + st
}

func ccScenario(spec ccSpec) vScn {
	var serial map[string]bool
	return vScn{name: spec.name, horizon: time.Minute, build: func() (func(), func(*vsched.Result) (string, []vScnBad)) {
		if serial == nil {
			serial = ccSerial(spec)
		}
		var ac *AttrCache
		var dc *DirCache
		res := make([][]string, len(spec.threads))
		root := func() {
			vsched.SetQuiet(true)
			ac, dc = ccNew(spec)
			vsched.SetQuiet(false)
			for t, ops := range spec.threads {
				t, ops := t, ops
				vsched.GoNamed(fmt.Sprintf("T%d", t+1), func() {
					for _, op := range ops {
						res[t] = append(res[t], op.run(ac, dc))
					}
				})
			}
		}
		judge := func(r *vsched.Result) (string, []vScnBad) {
			var bad []vScnBad
			for _, p := range r.Panics {
				bad = append(bad, vScnBad{"panic", p})
			}
			if b := vNamedBlocked(r, "T"); len(b) > 0 {
				bad = append(bad, vScnBad{"cache-operation-blocks-forever", fmt.Sprintf("%v", b)})
				return "deadlock", bad
			}
			if ac == nil {
				return "setup-failed", append(bad, vScnBad{"setup-failed", "set-up did not complete"})
			}
			st, inv := ccState(ac, dc)
			for _, x := range inv {
				p := strings.SplitN(x, "|", 2)
				bad = append(bad, vScnBad{p[0], p[1]})
			}
			out := ccOutcome(spec, res, st)
			if !serial[out] {
				var ss []string
				for s := range serial {
					ss = append(ss, s)
				}
				sort.Strings(ss)
				bad = append(bad, vScnBad{"not-equal-to-any-serial-order", fmt.Sprintf("concurrent outcome\n    %s\n  is produced by none of the serial orders:\n    %s", out, strings.Join(ss, "\n    "))})
			}
			return out, bad
		}
		return root, judge
	}}
}

func c21ConcScenarios(thorough bool) []vScn {
	ab := func(ac *AttrCache, dc *DirCache) {
		ac.Put("/a", ccAttrs(1))
		ac.Put("/b", ccAttrs(2))
		dc.Put("/a", ccListing("x"))
		dc.Put("/b", ccListing("y"))
	}
	specs := []ccSpec{
		{name: "putnegative-vs-disable", cap: 4, negOn: true, threads: [][]ccOp{{ccPutNeg("/d/x")}, {ccNeg(false)}, {ccGet("/d/x")}}},
		{name: "get-vs-invalidate-put", cap: 4, setup: ab, threads: [][]ccOp{{ccGet("/a")}, {ccInv("/a"), ccPut("/a", 9)}}},
		{name: "put-put-get", cap: 4, setup: ab, threads: [][]ccOp{{ccPut("/a", 7)}, {ccPut("/a", 8)}, {ccGet("/a")}}},
		{name: "clear-put-get", cap: 4, setup: ab, threads: [][]ccOp{{ccClear}, {ccPut("/c", 3)}, {ccGet("/a")}}},
		{name: "negdir-putneg-get", cap: 4, negOn: true, threads: [][]ccOp{{ccInvNegDir("/d")}, {ccPutNeg("/d/x")}, {ccGet("/d/x")}}},
		{name: "get-vs-evicting-put", cap: 2, setup: ab, threads: [][]ccOp{{ccGet("/a")}, {ccPut("/c", 3)}}},
		{name: "resize-put-get", cap: 2, setup: ab, threads: [][]ccOp{{ccResize(1)}, {ccPut("/c", 3)}, {ccGet("/b")}}},
		{name: "dir-put-invalidate-get", cap: 4, setup: ab, threads: [][]ccOp{{ccDPut("/a", "x", "z")}, {ccDInv("/a")}, {ccDGet("/a")}}},
		{name: "dir-get-vs-evicting-put", cap: 2, setup: ab, threads: [][]ccOp{{ccDGet("/a")}, {ccDPut("/c", "w")}}},
	}
	expired := func(ac *AttrCache, dc *DirCache) { // "/a" and the listing of "/a" have expired, later entries live for an hour
		ac.UpdateTTL(time.Second)
		ac.Put("/a", ccAttrs(1))
		ac.UpdateTTL(time.Hour)
		dc.UpdateTTL(time.Second)
		dc.Put("/a", ccListing("x"))
		dc.UpdateTTL(time.Hour)
		vsched.Advance(2 * time.Second)
	}
	specs = append(specs,
		// a Get that finds an expired entry removes it in a second critical section: a value stored in between must survive
		ccSpec{name: "expired-get-vs-put-2", cap: 4, setup: expired, threads: [][]ccOp{{ccGet("/a")}, {ccPut("/a", 5)}}},
		ccSpec{name: "dir-expired-get-vs-put-2", cap: 4, setup: expired, threads: [][]ccOp{{ccDGet("/a")}, {ccDPut("/a", "x", "z")}}})
	if thorough {
		specs = append(specs,
			ccSpec{name: "expired-get-vs-put", cap: 4, setup: expired, threads: [][]ccOp{{ccGet("/a")}, {ccPut("/a", 5)}, {ccGet("/a")}}},
			ccSpec{name: "two-gets-vs-evicting-put", cap: 2, setup: ab, threads: [][]ccOp{{ccGet("/a")}, {ccGet("/b")}, {ccPut("/c", 3)}}})
	}
	var out []vScn
	for _, sp := range specs {
		out = append(out, ccScenario(sp))
	}
	return out
}
