// Command zzverif is the worker process of the /verif model-checking harness.
// It only exists inside the build overlay.
package main

import "github.com/absfs/absnfs"

func main() { absnfs.VerifMain() }
