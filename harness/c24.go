package absnfs

// C24 — runtime reconfiguration keeps the server serviceable and is all-or-nothing.
// Explicit-state search over sequences of UpdateExportOptions /
// UpdateTuningOptions / UpdatePolicyOptions calls with zero, negative, nil and
// partially filled values; after every update the reported configuration is
// compared with a model that applies the construction defaults, and LOOKUP,
// READ and WRITE must be served.

import (
	"encoding/json"
	"fmt"
	"reflect"
	"runtime"
	"sort"
	"strings"
	"time"

	"github.com/absfs/absnfs/internal/verif/recfs"
	"github.com/absfs/absnfs/internal/verif/wire"
)

type c24Op struct {
	Call string `json:"call"` // export tuning policy
	Name string `json:"name"`
}

type c24State struct {
	e     *vEnv
	root  uint64
	fh    uint64
	model ExportOptions
	c     *vCtx
}

// c24Defaults applies the construction defaults (documented on ExportOptions
// and applied by New) to zero / negative numeric and duration fields and nil
// pointer fields. Written independently of New.
func c24Defaults(o ExportOptions) ExportOptions {
	d := func(v *time.Duration, def time.Duration) {
		if *v <= 0 {
			*v = def
		}
	}
	n := func(v *int, def int) {
		if *v <= 0 {
			*v = def
		}
	}
	n(&o.TransferSize, 65536)
	d(&o.AttrCacheTimeout, 5*time.Second)
	n(&o.AttrCacheSize, 10000)
	d(&o.NegativeCacheTimeout, 5*time.Second)
	d(&o.DirCacheTimeout, 10*time.Second)
	n(&o.DirCacheMaxEntries, 1000)
	n(&o.DirCacheMaxDirSize, 10000)
	n(&o.MaxWorkers, runtime.NumCPU()*4)
	n(&o.MaxConnections, 100)
	d(&o.IdleTimeout, 5*time.Minute)
	n(&o.SendBufferSize, 262144)
	n(&o.ReceiveBufferSize, 262144)
	def := TimeoutConfig{ReadTimeout: 30 * time.Second, WriteTimeout: 60 * time.Second, LookupTimeout: 10 * time.Second,
		ReaddirTimeout: 30 * time.Second, CreateTimeout: 15 * time.Second, RemoveTimeout: 15 * time.Second,
		RenameTimeout: 20 * time.Second, HandleTimeout: 5 * time.Second, DefaultTimeout: 30 * time.Second}
	if o.Timeouts == nil {
		t := def
		o.Timeouts = &t
	} else {
		t := *o.Timeouts
		d(&t.ReadTimeout, def.ReadTimeout)
		d(&t.WriteTimeout, def.WriteTimeout)
		d(&t.LookupTimeout, def.LookupTimeout)
		d(&t.ReaddirTimeout, def.ReaddirTimeout)
		d(&t.CreateTimeout, def.CreateTimeout)
		d(&t.RemoveTimeout, def.RemoveTimeout)
		d(&t.RenameTimeout, def.RenameTimeout)
		d(&t.HandleTimeout, def.HandleTimeout)
		d(&t.DefaultTimeout, def.DefaultTimeout)
		o.Timeouts = &t
	}
	return o
}

// c24Diff lists the fields in which two option sets differ (fields the
// property is about: numeric, duration, bool, Timeouts, policy values).
func c24Diff(got, want ExportOptions) []string {
	var out []string
	gv, wv := reflect.ValueOf(got), reflect.ValueOf(want)
	for i := 0; i < gv.NumField(); i++ {
		f := gv.Type().Field(i)
		if !f.IsExported() {
			continue
		}
		switch f.Name {
		case "Log", "TLS", "RateLimitConfig":
			if gv.Field(i).IsNil() != wv.Field(i).IsNil() {
				out = append(out, f.Name+"(nil-ness)")
			}
			continue
		case "Timeouts":
			g, w := got.Timeouts, want.Timeouts
			if g == nil || w == nil {
				if g != w {
					out = append(out, "Timeouts(nil)")
				}
				continue
			}
			tg, tw := reflect.ValueOf(*g), reflect.ValueOf(*w)
			for j := 0; j < tg.NumField(); j++ {
				if tg.Field(j).Interface() != tw.Field(j).Interface() {
					out = append(out, "Timeouts."+tg.Type().Field(j).Name)
				}
			}
			continue
		}
		if !reflect.DeepEqual(gv.Field(i).Interface(), wv.Field(i).Interface()) {
			out = append(out, f.Name)
		}
	}
	sort.Strings(out)
	return out
}

type c24Mut struct {
	name string
	fn   func(o *ExportOptions) // mutation of a copy of the current (reported) options
}

func c24ExportMuts() []c24Mut {
	return []c24Mut{
		{"zero-value", func(o *ExportOptions) { *o = ExportOptions{} }},
		{"only-readonly", func(o *ExportOptions) { *o = ExportOptions{ReadOnly: true} }},
		{"current", func(o *ExportOptions) {}},
		{"transfer-size-neg", func(o *ExportOptions) { o.TransferSize = -1 }},
		{"transfer-size-zero", func(o *ExportOptions) { o.TransferSize = 0 }},
		{"timeouts-nil", func(o *ExportOptions) { o.Timeouts = nil }},
		{"timeouts-zero", func(o *ExportOptions) { o.Timeouts = &TimeoutConfig{} }},
		{"timeouts-negative", func(o *ExportOptions) {
			o.Timeouts = &TimeoutConfig{ReadTimeout: -1, WriteTimeout: -1, LookupTimeout: -1, ReaddirTimeout: -1, CreateTimeout: -1, RemoveTimeout: -1, RenameTimeout: -1, HandleTimeout: -1, DefaultTimeout: -1}
		}},
		{"default-timeout-zero", func(o *ExportOptions) { t := *o.Timeouts; t.DefaultTimeout = 0; o.Timeouts = &t }},
		{"cache-sizes-zero", func(o *ExportOptions) { o.AttrCacheSize, o.DirCacheMaxEntries, o.DirCacheMaxDirSize = 0, 0, 0 }},
		{"cache-timeouts-zero", func(o *ExportOptions) { o.AttrCacheTimeout, o.NegativeCacheTimeout, o.DirCacheTimeout = 0, 0, 0 }},
		{"max-workers-zero", func(o *ExportOptions) { o.MaxWorkers = 0 }},
		{"conn-zero", func(o *ExportOptions) { o.MaxConnections, o.IdleTimeout, o.SendBufferSize, o.ReceiveBufferSize = 0, 0, -5, 0 }},
		{"squash-changed", func(o *ExportOptions) { o.Squash = "all"; o.TransferSize = 1234; o.ReadOnly = true }},
		// the same mode in another spelling: accepted or rejected, but as a whole
		{"squash-respelled", func(o *ExportOptions) { o.Squash = "NONE"; o.TransferSize = 4321; o.AttrCacheSize = 77; o.ReadOnly = true }},
		{"ratelimit-nil-config", func(o *ExportOptions) { o.EnableRateLimiting = true; o.RateLimitConfig = nil }},
		{"transfer-size-8k", func(o *ExportOptions) { o.TransferSize = 8192 }},
		{"ratelimit-custom-config", func(o *ExportOptions) {
			rc := DefaultRateLimiterConfig()
			rc.PerIPBurstSize, rc.GlobalRequestsPerSecond = 777, 55555
			o.EnableRateLimiting, o.RateLimitConfig = true, &rc
		}},
		{"ratelimit-off", func(o *ExportOptions) { o.EnableRateLimiting = false }},
	}
}

type c24TMut struct {
	name string
	fn   func(t *TuningOptions)
}

func c24TuningMuts() []c24TMut {
	return []c24TMut{
		{"transfer-size-zero", func(t *TuningOptions) { t.TransferSize = 0 }},
		{"transfer-size-neg", func(t *TuningOptions) { t.TransferSize = -7 }},
		{"timeouts-nil", func(t *TuningOptions) { t.Timeouts = nil }},
		{"default-timeout-zero", func(t *TuningOptions) { t.Timeouts.DefaultTimeout = 0 }},
		{"op-timeouts-negative", func(t *TuningOptions) {
			t.Timeouts.ReadTimeout, t.Timeouts.WriteTimeout, t.Timeouts.LookupTimeout = -1, -1, -1
		}},
		{"cache-zero", func(t *TuningOptions) { t.AttrCacheSize, t.AttrCacheTimeout = 0, 0 }},
		{"max-workers-neg", func(t *TuningOptions) { t.MaxWorkers = -2 }},
		{"conn-zero", func(t *TuningOptions) { t.MaxConnections, t.IdleTimeout = 0, 0 }},
		{"log-nil", func(t *TuningOptions) { t.Log = nil }},
		{"all-zero", func(t *TuningOptions) { *t = TuningOptions{} }},
	}
}

func c24Ops() []c24Op {
	var ops []c24Op
	for _, m := range c24ExportMuts() {
		ops = append(ops, c24Op{"export", m.name})
	}
	for _, m := range c24TuningMuts() {
		ops = append(ops, c24Op{"tuning", m.name})
	}
	for _, n := range []string{"zero-value", "current", "squash-changed", "readonly"} {
		ops = append(ops, c24Op{"policy", n})
	}
	return ops
}

func c24New(c *vCtx) *c24State {
	e, err := vNewEnv(ExportOptions{AttrCacheTimeout: time.Nanosecond, MaxWorkers: 2, Squash: "none"}, func(fs *recfs.FS) {
		f, _ := fs.Create("/f")
		f.Write([]byte("0123456789"))
		f.Close()
	})
	vMust(err, "env")
	s := &c24State{e: e, c: c}
	s.root, err = e.mnt("/")
	vMust(err, "mnt")
	s.fh, err = e.lookupFH(s.root, "f")
	vMust(err, "lookup")
	s.model = e.nfs.GetExportOptions()
	return s
}

func (s *c24State) key() string {
	o := s.e.nfs.GetExportOptions()
	b, _ := json.Marshal(o)
	return string(b)
}

// guard runs f and converts a panic into an error string.
func c24Guard(f func()) (p any) {
	defer func() { p = recover() }()
	f()
	return nil
}

func (s *c24State) apply(op c24Op, check bool, hist []c24Op) {
	cs := func() any { return map[string]any{"hist": append(append([]c24Op(nil), hist...), op)} }
	before := s.e.nfs.GetExportOptions()
	healthyBefore := true
	if check {
		var pre [][2]string
		if p := c24Guard(func() { pre = s.serve("pre", before.ReadOnly) }); p != nil || len(pre) > 0 {
			healthyBefore = false
		}
	}
	var err error
	want := s.model
	sig := op.Call + ":" + op.Name
	switch op.Call {
	case "export":
		for _, m := range c24ExportMuts() {
			if m.name == op.Name {
				in := s.e.nfs.GetExportOptions()
				m.fn(&in)
				arg := in
				if p := c24Guard(func() { err = s.e.nfs.UpdateExportOptions(arg) }); p != nil && check {
					s.c.violation("C24|update-panics|"+sig, fmt.Sprintf("UpdateExportOptions(%s) panicked: %v", op.Name, p), cs())
				}
				respelled := in.Squash != before.Squash && strings.EqualFold(in.Squash, before.Squash)
				if respelled && err == nil {
					// accepted: every field must have been applied (either spelling may be reported)
					w := in
					w.Squash = s.e.nfs.GetExportOptions().Squash
					if !strings.EqualFold(w.Squash, before.Squash) {
						w.Squash = before.Squash
					}
					want = c24Defaults(w)
					if want.RateLimitConfig == nil {
						want.RateLimitConfig = before.RateLimitConfig
					}
				} else if respelled {
					want = s.model // rejected: nothing may have changed
				} else if in.Squash != "" && in.Squash != before.Squash {
					// must be rejected as a whole
					if err == nil && check {
						s.c.violation("C24|squash-change-accepted", "UpdateExportOptions with a different Squash returned nil", cs())
					}
					want = s.model
				} else {
					w := in
					w.Squash = before.Squash
					if w.Timeouts == nil {
						w.Timeouts = before.Timeouts
					}
					if w.Log == nil {
						w.Log = before.Log
					}
					want = c24Defaults(w)
					if want.RateLimitConfig == nil {
						want.RateLimitConfig = before.RateLimitConfig // construction fills a default config
					}
				}
			}
		}
	case "tuning":
		for _, m := range c24TuningMuts() {
			if m.name == op.Name {
				if p := c24Guard(func() { s.e.nfs.UpdateTuningOptions(m.fn) }); p != nil && check {
					s.c.violation("C24|update-panics|"+sig, fmt.Sprintf("UpdateTuningOptions(%s) panicked: %v", op.Name, p), cs())
				}
				// model: apply the same mutator to the model's tuning view, then defaults
				t := tuningFromExportOptions(&before)
				m.fn(t)
				w := exportOptionsFromSnapshots(t, policyFromExportOptions(&before))
				if w.Timeouts == nil {
					w.Timeouts = nil // defaults below
				}
				want = c24Defaults(w)
				want.Log = w.Log
			}
		}
	case "policy":
		p := *s.e.nfs.policy.Load()
		switch op.Name {
		case "zero-value":
			p = PolicyOptions{Squash: p.Squash}
		case "squash-changed":
			p.Squash = "root"
			p.ReadOnly = true
		case "readonly":
			p.ReadOnly = !p.ReadOnly
		}
		if pn := c24Guard(func() { err = s.e.nfs.UpdatePolicyOptions(p) }); pn != nil && check {
			s.c.violation("C24|update-panics|"+sig, fmt.Sprintf("UpdatePolicyOptions(%s) panicked: %v", op.Name, pn), cs())
		}
		if op.Name == "squash-changed" {
			if err == nil && check {
				s.c.violation("C24|squash-change-accepted", "UpdatePolicyOptions with a different Squash returned nil", cs())
			}
			want = s.model
		} else {
			t := tuningFromExportOptions(&before)
			want = exportOptionsFromSnapshots(t, &p)
			if want.RateLimitConfig == nil {
				// a nil pointer field takes the construction default (a default configuration)
				rc := DefaultRateLimiterConfig()
				want.RateLimitConfig = &rc
			}
		}
	}
	got := s.e.nfs.GetExportOptions()
	rejected := err != nil
	if check {
		s.c.res.Evaluations++
		if rejected {
			if d := c24Diff(got, before); len(d) > 0 {
				s.c.violation(fmt.Sprintf("C24|rejected-update-changes-configuration|%s|fields=%s", sig, strings.Join(d, "+")),
					fmt.Sprintf("%s(%s) returned an error (%v) but GetExportOptions changed in: %v", op.Call, op.Name, err, d), cs())
			}
		} else if d := c24Diff(got, want); len(d) > 0 {
			s.c.violation(fmt.Sprintf("C24|configuration-not-defaulted|%s|fields=%s", sig, strings.Join(d, "+")),
				fmt.Sprintf("after %s(%s) GetExportOptions differs from the construction-default model in %v (e.g. TransferSize=%d Timeouts=%+v MaxWorkers=%d)", op.Call, op.Name, d, got.TransferSize, got.Timeouts, got.MaxWorkers), cs())
		}
		// all-or-nothing also means the live components follow the configuration the
		// server reports: the caches and the worker pool have the reported sizes / TTLs
		if !rejected {
			if d := s.components(got); len(d) > 0 {
				s.c.violation(fmt.Sprintf("C24|components-disagree-with-reported-configuration|%s|fields=%s", sig, strings.Join(d, "+")),
					fmt.Sprintf("after %s(%s) GetExportOptions reports a configuration the live components do not have: %v", op.Call, op.Name, s.componentsDetail(got)), cs())
			}
		}
		// the server keeps serving (reported only when it did before this update, so that
		// a defect is attributed to the update that introduced it)
		ro := got.ReadOnly
		var probs [][2]string
		if p := c24Guard(func() { probs = s.serve(sig, ro) }); p != nil {
			probs = append(probs, [2]string{"C24|request-panics-after-update|" + sig, fmt.Sprintf("a request after %s(%s) panicked: %v", op.Call, op.Name, p)})
		}
		if healthyBefore {
			for _, pr := range probs {
				s.c.violation(pr[0], pr[1], cs())
			}
		} else if len(probs) > 0 {
			s.c.count("unhealthy_states_inherited", 1)
		}
	}
	s.model = got // continue from the reported configuration
}

// components compares the reported configuration with the state of the attribute
// cache, the directory cache and the worker pool (unexported fields, read under
// their locks).
func (s *c24State) componentsDetail(o ExportOptions) []string {
	var d []string
	n := s.e.nfs
	if ac := n.attrCache; ac != nil {
		ac.mu.RLock()
		if ac.maxSize != o.AttrCacheSize {
			d = append(d, fmt.Sprintf("AttrCacheSize: reported %d, cache %d", o.AttrCacheSize, ac.maxSize))
		}
		if ac.ttl != o.AttrCacheTimeout {
			d = append(d, fmt.Sprintf("AttrCacheTimeout: reported %v, cache %v", o.AttrCacheTimeout, ac.ttl))
		}
		if ac.enableNegative != o.CacheNegativeLookups {
			d = append(d, fmt.Sprintf("CacheNegativeLookups: reported %v, cache %v", o.CacheNegativeLookups, ac.enableNegative))
		}
		if o.CacheNegativeLookups && ac.negativeTTL != o.NegativeCacheTimeout {
			d = append(d, fmt.Sprintf("NegativeCacheTimeout: reported %v, cache %v", o.NegativeCacheTimeout, ac.negativeTTL))
		}
		ac.mu.RUnlock()
	}
	if dc := n.dirCache; dc != nil {
		dc.mu.RLock()
		if dc.maxEntries != o.DirCacheMaxEntries {
			d = append(d, fmt.Sprintf("DirCacheMaxEntries: reported %d, cache %d", o.DirCacheMaxEntries, dc.maxEntries))
		}
		if dc.timeout != o.DirCacheTimeout {
			d = append(d, fmt.Sprintf("DirCacheTimeout: reported %v, cache %v", o.DirCacheTimeout, dc.timeout))
		}
		dc.mu.RUnlock()
	}
	n.policyRWMu.RLock()
	rl := n.rateLimiter
	n.policyRWMu.RUnlock()
	if (rl != nil) != o.EnableRateLimiting {
		d = append(d, fmt.Sprintf("EnableRateLimiting: reported %v, limiter installed %v", o.EnableRateLimiting, rl != nil))
	} else if rl != nil && o.RateLimitConfig != nil && !reflect.DeepEqual(rl.config, *o.RateLimitConfig) {
		d = append(d, fmt.Sprintf("RateLimitConfig: reported %+v, limiter runs %+v", *o.RateLimitConfig, rl.config))
	}
	if wp := n.workerPool; wp != nil {
		if mw, _, _ := wp.Stats(); mw != o.MaxWorkers {
			d = append(d, fmt.Sprintf("MaxWorkers: reported %d, pool %d", o.MaxWorkers, mw))
		}
	}
	return d
}

func (s *c24State) components(o ExportOptions) []string {
	var f []string
	for _, x := range s.componentsDetail(o) {
		f = append(f, x[:strings.Index(x, ":")])
	}
	return f
}

func (s *c24State) serve(sig string, readOnly bool) (probs [][2]string) {
	bad := func(sg, msg string) { probs = append(probs, [2]string{sg, msg}) }
	res, err := s.e.lookup(s.root, "f")
	if err != nil || res.Status != 0 {
		st := "error"
		if res != nil {
			st = wire.StatName(res.Status)
		}
		bad(fmt.Sprintf("C24|request-not-served|req=LOOKUP|%s|status=%s", sig, st), fmt.Sprintf("LOOKUP after the update: err=%v", err))
	}
	var a wire.Enc
	a.FH(s.fh).U64(0).U32(4)
	rres, _, err := s.e.nfsCall(wire.READ, a.B)
	switch {
	case err != nil || rres == nil:
		bad(fmt.Sprintf("C24|request-not-served|req=READ|%s|status=error", sig), fmt.Sprintf("READ after the update: %v", err))
	case rres.Status != 0:
		bad(fmt.Sprintf("C24|request-not-served|req=READ|%s|status=%s", sig, wire.StatName(rres.Status)), "READ after the update fails")
	case rres.Count == 0:
		bad(fmt.Sprintf("C24|read-returns-nothing|%s", sig), "READ of 4 bytes at offset 0 of a 10-byte file returned 0 bytes")
	}
	if readOnly {
		return probs
	}
	var w wire.Enc
	w.FH(s.fh).U64(0).U32(3).U32(2).Opaque([]byte("xyz"))
	wres, _, err := s.e.nfsCall(wire.WRITE, w.B)
	switch {
	case err != nil || wres == nil:
		bad(fmt.Sprintf("C24|request-not-served|req=WRITE|%s|status=error", sig), fmt.Sprintf("WRITE after the update: %v", err))
	case wres.Status != 0:
		bad(fmt.Sprintf("C24|request-not-served|req=WRITE|%s|status=%s", sig, wire.StatName(wres.Status)), "WRITE after the update fails")
	case wres.Count == 0:
		bad(fmt.Sprintf("C24|write-stores-nothing|%s", sig), "WRITE of 3 bytes replied count 0")
	}
	return probs
}

func init() {
	vRegister(&vCheck{
		id: "C24", level: "model_checking", flavour: "vtime",
		shards: func(string) int { return 15 },
		rule: "breadth-first search over sequences (depth 3, thorough 4) of 33 runtime updates: UpdateExportOptions with {zero value, only ReadOnly, current, TransferSize -1/0/8192, Timeouts nil / all zero / all negative / DefaultTimeout 0, cache sizes 0, cache timeouts 0, MaxWorkers 0, connection fields 0/negative, Squash changed (+ other fields), Squash respelled in another letter case (+ other fields; accepted or rejected, but as a whole), rate limiting on with nil config / with a custom config / off}; UpdateTuningOptions mutators {TransferSize 0/negative, Timeouts nil, DefaultTimeout 0, operation timeouts negative, cache 0, MaxWorkers negative, connection 0, Log nil, all zero}; UpdatePolicyOptions {zero value, current, Squash changed, ReadOnly toggled}; states deduplicated on the reported configuration. After every update GetExportOptions is compared field by field with a model that applies the construction defaults, the live attribute cache, directory cache, worker pool and rate limiter must have the reported sizes, TTLs and configuration, a rejected update must leave every field unchanged, and LOOKUP, READ (count>0) and WRITE (count>0 unless read-only) must be served without panic.",
		assumptions: []string{"the construction defaults are those documented on ExportOptions and re-implemented in the check (c24Defaults)", "Log/TLS/RateLimitConfig are compared for nil-ness only"},
		run: func(c *vCtx) {
			ops := c24Ops()
			depth := 3
			if c.thorough() {
				depth = 4
			}
			eng := &vHist[*c24State, c24Op]{
				New:     func() *c24State { return c24New(c) },
				Apply:   func(s *c24State, op c24Op, check bool, hist []c24Op) { s.apply(op, check, hist) },
				Enabled: func(s *c24State) []c24Op { return ops },
				Key:     func(s *c24State) string { return s.key() },
				Close:   func(s *c24State) { s.e.close() },
			}
			st, tr, _ := eng.run(c, depth)
			c.res.States, c.res.Transitions, c.res.Traces = st, tr, tr
			c.res.Bounds["alphabet"] = len(ops)
			c.res.Bounds["depth"] = depth
			c.sample(map[string]any{"ops": ops[:4]})
		},
		replay: func(c *vCtx, raw json.RawMessage) {
			var cs struct {
				Hist []c24Op `json:"hist"`
			}
			vMust(json.Unmarshal(raw, &cs), "case")
			s := c24New(c)
			defer s.e.close()
			for i, op := range cs.Hist {
				s.apply(op, i == len(cs.Hist)-1, cs.Hist[:i])
			}
		},
	})
}
