package absnfs

// C22 — data acknowledged as stable survives a crash.
// For every request history (bounded depth) the recording backend's log is
// cut at every crash point (between any two backend operations and between
// the last backend operation of a request and its reply) and, for every
// subset of the data writes that were not yet synced, the durable image is
// computed; everything acknowledged FILE_SYNC (or covered by an acknowledged
// COMMIT) must be in it. Also: one write verifier per server instance.

import (
	"bytes"
	"encoding/json"
	"fmt"
	"time"

	"github.com/absfs/absnfs/internal/verif/recfs"
	"github.com/absfs/absnfs/internal/verif/vtime"
	"github.com/absfs/absnfs/internal/verif/wire"
)

type c22Op struct {
	Kind   string `json:"kind"` // write commit setsize create update-policy update-tuning
	Off    uint64 `json:"off,omitempty"`
	Len    int    `json:"len,omitempty"`
	Stable uint32 `json:"stable,omitempty"`
	Size   uint64 `json:"size,omitempty"`
	// environment answer: the backend's Sync fails (EIO) during this request
	SyncFails bool `json:"sync_fails,omitempty"`
}

type c22Case struct {
	Hist  []c22Op `json:"hist"`
	Crash int     `json:"crash_after_event,omitempty"`
	Drop  []int   `json:"dropped_writes,omitempty"`
}

// event stream of one execution: backend data/sync operations and replies
type c22Event struct {
	kind    string // data trunc sync reply
	off     int64
	data    []byte
	size    int64
	req     int  // request index
	acked   bool // reply: status OK
	isWrite bool
	commit  uint32 // committed field of a WRITE reply
	isComm  bool
}

func c22Alphabet() []c22Op {
	var ops []c22Op
	for _, off := range []uint64{0, 2} {
		for _, l := range []int{1, 3} {
			for _, st := range []uint32{0, 1, 2} {
				ops = append(ops, c22Op{Kind: "write", Off: off, Len: l, Stable: st})
			}
		}
	}
	// a WRITE (and a COMMIT) during which the backend refuses to sync: whatever is acknowledged must still be durable
	ops = append(ops, c22Op{Kind: "write", Off: 0, Len: 3, Stable: 2, SyncFails: true}, c22Op{Kind: "write", Off: 2, Len: 1, Stable: 0, SyncFails: true},
		c22Op{Kind: "commit", SyncFails: true})
	ops = append(ops, c22Op{Kind: "commit"}, c22Op{Kind: "setsize", Size: 0}, c22Op{Kind: "setsize", Size: 1}, c22Op{Kind: "setsize", Size: 5},
		c22Op{Kind: "create"}, c22Op{Kind: "update-policy"}, c22Op{Kind: "update-tuning"})
	return ops
}

func c22Image(initial []byte, evs []c22Event, include func(i int) bool) []byte {
	img := append([]byte(nil), initial...)
	for i, ev := range evs {
		switch ev.kind {
		case "data":
			if !include(i) {
				continue
			}
			end := ev.off + int64(len(ev.data))
			for int64(len(img)) < end {
				img = append(img, 0)
			}
			copy(img[ev.off:], ev.data)
		case "trunc":
			for int64(len(img)) < ev.size {
				img = append(img, 0)
			}
			img = img[:ev.size]
		}
	}
	return img
}

func c22Run(c *vCtx, hist []c22Op, only *c22Case) {
	c.beat(func() any { return c22Case{Hist: hist} })
	fs := recfs.New()
	fs.KeepData = true
	fs.NoLog = true
	f, err := fs.Create("/f")
	vMust(err, "create")
	f.Write([]byte("abcd"))
	f.Close()
	fs.NoLog = false
	e, err := vNewEnvOn(fs, ExportOptions{AttrCacheTimeout: 1})
	vMust(err, "env")
	defer e.close()
	root, err := e.mnt("/")
	vMust(err, "mnt")
	fh, err := e.lookupFH(root, "f")
	vMust(err, "lookup")
	initial := []byte("abcd")
	var evs []c22Event
	var verfs [][]byte
	for ri, op := range hist {
		from := e.fs.LogLen()
		var res *wire.NFSRes
		var err error
		isWrite, isComm := false, false
		var payload []byte
		if op.SyncFails {
			e.fs.Hook = func(o *recfs.Op) error {
				if o.Name == "Sync" {
					return fmt.Errorf("input/output error")
				}
				return nil
			}
		} else {
			e.fs.Hook = nil
		}
		switch op.Kind {
		case "write":
			isWrite = true
			payload = bytes.Repeat([]byte{byte('A' + ri*4 + op.Len)}, op.Len)
			var a wire.Enc
			a.FH(fh).U64(op.Off).U32(uint32(op.Len)).U32(op.Stable).Opaque(payload)
			res, _, err = e.nfsCall(wire.WRITE, a.B)
		case "commit":
			isComm = true
			var a wire.Enc
			a.FH(fh).U64(0).U32(0)
			res, _, err = e.nfsCall(wire.COMMIT, a.B)
		case "setsize":
			var a wire.Enc
			a.FH(fh).Sattr(wire.Sattr{Size: wire.U64p(op.Size)}).U32(0)
			res, _, err = e.nfsCall(wire.SETATTR, a.B)
		case "create":
			var a wire.Enc
			a.FH(root).Str("f").U32(0).Sattr(wire.Sattr{})
			res, _, err = e.nfsCall(wire.CREATE, a.B)
		case "update-policy":
			p := *e.nfs.policy.Load()
			p.Secure = false
			vMust(e.nfs.UpdatePolicyOptions(p), "policy")
			continue
		case "update-tuning":
			e.nfs.UpdateTuningOptions(func(t *TuningOptions) { t.TransferSize = 32768 })
			continue
		}
		if err != nil || res == nil {
			c.violation("C22|call-failed|op="+op.Kind, fmt.Sprintf("%v", err), c22Case{Hist: hist})
			return
		}
		for _, lo := range e.fs.Snapshot()[from:] {
			if lo.Path != "/f" || lo.Err != "" {
				continue
			}
			switch lo.Name {
			case "WriteAt":
				evs = append(evs, c22Event{kind: "data", off: lo.Off, data: lo.Data, req: ri})
			case "Write":
				c.note("Write (not WriteAt) on /f observed: appended at current offset, treated as offset 0")
				evs = append(evs, c22Event{kind: "data", off: 0, data: lo.Data, req: ri})
			case "Truncate", "FTruncate":
				evs = append(evs, c22Event{kind: "trunc", size: lo.Off, req: ri})
			case "Create":
				evs = append(evs, c22Event{kind: "trunc", size: 0, req: ri})
			case "OpenFile":
				if lo.Flag&0x200 != 0 { // O_TRUNC
					evs = append(evs, c22Event{kind: "trunc", size: 0, req: ri})
				}
			case "Sync":
				evs = append(evs, c22Event{kind: "sync", req: ri})
			}
		}
		ev := c22Event{kind: "reply", req: ri, acked: res.Status == 0, isWrite: isWrite, isComm: isComm, commit: res.Committed}
		evs = append(evs, ev)
		if (isWrite || isComm) && res.Status == 0 {
			verfs = append(verfs, res.Verf)
		}
		if isWrite && res.Status == 0 && int(res.Count) != op.Len {
			c.count("short_writes", 1)
		}
	}
	for i := 1; i < len(verfs); i++ {
		if !bytes.Equal(verfs[i], verfs[0]) {
			c.violation("C22|write-verifier-changes-within-instance", fmt.Sprintf("verifier % x then % x in one server instance", verfs[0], verfs[i]), c22Case{Hist: hist})
			break
		}
	}
	// crash enumeration
	for k := 0; k <= len(evs); k++ {
		if only != nil && only.Crash != k {
			continue
		}
		pre := evs[:k]
		// which data events are synced within the prefix
		synced := make([]bool, k)
		for i := range pre {
			if pre[i].kind == "sync" {
				for j := 0; j < i; j++ {
					if pre[j].kind == "data" {
						synced[j] = true
					}
				}
			}
		}
		// which data events are required durable: request acknowledged FILE_SYNC, or an
		// acknowledged COMMIT follows the acknowledged write
		ackedReq := map[int]c22Event{}
		for _, ev := range pre {
			if ev.kind == "reply" && ev.acked {
				ackedReq[ev.req] = ev
			}
		}
		required := make([]bool, k)
		why := make([]string, k)
		for i, ev := range pre {
			if ev.kind != "data" {
				continue
			}
			rp, ok := ackedReq[ev.req]
			if !ok || !rp.isWrite {
				continue
			}
			if rp.commit == 2 {
				required[i], why[i] = true, "FILE_SYNC"
				continue
			}
			for r2, rp2 := range ackedReq {
				if rp2.isComm && r2 > ev.req {
					required[i], why[i] = true, "COMMIT"
				}
			}
		}
		var unsynced []int
		for i, ev := range pre {
			if ev.kind == "data" && !synced[i] {
				unsynced = append(unsynced, i)
			}
		}
		if len(unsynced) > 6 {
			unsynced = unsynced[len(unsynced)-6:]
			c.res.Exhaustive = false
			c.note("more than 6 unsynced writes in a prefix: only subsets of the last 6 enumerated")
		}
		for mask := 0; mask < 1<<len(unsynced); mask++ {
			dropped := map[int]bool{}
			var dl []int
			for b, idx := range unsynced {
				if mask&(1<<b) != 0 {
					dropped[idx] = true
					dl = append(dl, idx)
				}
			}
			if only != nil && fmt.Sprint(only.Drop) != fmt.Sprint(dl) {
				continue
			}
			c.res.Evaluations++
			img := c22Image(initial, pre, func(i int) bool { return !dropped[i] })
			must := c22Image(initial, pre, func(i int) bool { return !dropped[i] || required[i] })
			if !bytes.Equal(img, must) {
				reason, st := "", uint32(0)
				for _, idx := range dl {
					if required[idx] {
						reason = why[idx]
						st = hist[pre[idx].req].Stable
					}
				}
				c.violation(fmt.Sprintf("C22|acknowledged-data-lost-in-crash|ack=%s|requested-stable=%d", reason, st),
					fmt.Sprintf("history %+v, crash after event %d/%d with unsynced writes %v lost: durable file %q, but data acknowledged as %s requires %q", hist, k, len(evs), dl, img, reason, must),
					c22Case{Hist: hist, Crash: k, Drop: dl})
			}
			if mask > 0 {
				c.res.Distinct++
			}
		}
	}
	c.count("histories", 1)
	c.count("events", int64(len(evs)))
}

func init() {
	vRegister(&vCheck{
		id: "C22", level: "fault_enumeration", flavour: "vtime",
		shards: func(string) int { return 16 },
		rule: "every request history up to depth 4 (thorough 5) over {WRITE off in {0,2} x len in {1,3} x stable in {UNSTABLE,DATA_SYNC,FILE_SYNC}, two WRITEs and a COMMIT during which the backend's Sync fails with EIO (an environment answer: a failed Sync makes nothing durable), COMMIT, SETATTR size in {0,1,5}, CREATE of the existing name, UpdatePolicyOptions, UpdateTuningOptions} on one file; the event stream (backend WriteAt/Truncate/Sync calls with their payload, and replies) is cut at every crash point; for every subset of the not-yet-synced data writes of the prefix the durable file image is computed and compared with the image that keeps every write whose request was acknowledged FILE_SYNC or is covered by an acknowledged later COMMIT. Non-trivial = (history, crash point, non-empty dropped subset). Write verifiers of all WRITE/COMMIT replies of an instance must be identical; two instances created 1 ns apart must differ.",
		assumptions: []string{"crash model: data written through a file handle becomes durable at File.Sync on that path; truncation and namespace operations are durable immediately (journalled metadata)",
			"the clock advances between two server constructions"},
		run: func(c *vCtx) {
			ops := c22Alphabet()
			depth := 4
			if c.thorough() {
				depth = 5
			}
			idx := 0
			var rec func(h []c22Op)
			rec = func(h []c22Op) {
				if len(h) > 0 {
					idx++
					if c.mine(idx) {
						c22Run(c, h, nil)
						if idx%499 == 0 {
							c.sample(c22Case{Hist: h})
						}
					}
				}
				if len(h) == depth {
					return
				}
				for _, op := range ops {
					rec(append(append([]c22Op(nil), h...), op))
				}
			}
			rec(nil)
			c.res.Bounds["depth"] = depth
			c.res.Bounds["alphabet"] = len(ops)
			if c.shard == 0 {
				// verifier differs between successively created instances
				s1, _ := NewServer(ServerOptions{})
				vtime.Advance(time.Nanosecond)
				s2, _ := NewServer(ServerOptions{})
				if s1.writeVerf == s2.writeVerf {
					c.violation("C22|write-verifier-same-across-instances", fmt.Sprintf("two instances created 1ns apart share verifier % x", s1.writeVerf), c22Case{})
				}
				s1.cancel()
				s2.cancel()
			}
		},
		replay: func(c *vCtx, raw json.RawMessage) {
			var cs c22Case
			vMust(json.Unmarshal(raw, &cs), "case")
			if len(cs.Hist) == 0 {
				return
			}
			c22Run(c, cs.Hist, &cs)
		},
	})
}
