package absnfs

// C28 — every documented way of starting a server speaks standard ONC RPC over TCP.
// Complete enumeration of the public start-up paths x options; each is driven
// over real loopback TCP by a conformant record-marking client built on the
// independent wire kit.

import (
	"encoding/binary"
	"encoding/json"
	"fmt"
	"io"
	"net"
	"time"

	"github.com/absfs/absnfs/internal/verif/recfs"
	"github.com/absfs/absnfs/internal/verif/wire"
)

type c28Case struct {
	Path     string `json:"path"` // export | listen-rm | portmapper
	Explicit bool   `json:"explicit_port"`
	Debug    bool   `json:"debug"`
	Second   bool   `json:"after_unexport_and_reexport"`
}

func c28FreePort() int {
	l, err := net.Listen("tcp", "127.0.0.1:0")
	if err != nil {
		return 0
	}
	p := l.Addr().(*net.TCPAddr).Port
	l.Close()
	return p
}

// rpcExchange sends one record-marked call (optionally in several fragments)
// and reads one record-marked reply. The verdict is structural: a reply, a
// closed/reset connection, bytes that are not a record, or nothing until the
// deadline (which is longer than every read deadline of the server).
func rpcExchange(conn net.Conn, msg []byte, frags ...int) ([]byte, string) {
	out := wire.Record(msg)
	if len(frags) > 0 {
		out = wire.Fragments(msg, frags...)
	}
	if _, err := conn.Write(out); err != nil {
		return nil, "write-failed: " + err.Error()
	}
	conn.SetReadDeadline(time.Now().Add(40 * time.Second))
	var rec []byte
	for {
		var hdr [4]byte
		if _, err := io.ReadFull(conn, hdr[:]); err != nil {
			if ne, ok := err.(net.Error); ok && ne.Timeout() {
				return nil, "no-reply-within-40s"
			}
			return nil, "connection-closed-without-reply (" + err.Error() + ")"
		}
		h := binary.BigEndian.Uint32(hdr[:])
		n := int(h &^ 0x80000000)
		if n > 1<<20 {
			return nil, fmt.Sprintf("reply-not-record-marked (first word %#x)", h)
		}
		frag := make([]byte, n)
		if _, err := io.ReadFull(conn, frag); err != nil {
			return nil, "reply-truncated (" + err.Error() + ")"
		}
		rec = append(rec, frag...)
		if h&0x80000000 != 0 {
			return rec, ""
		}
	}
}

func c28Dialogue(port int) (step, problem string) {
	conn, err := net.DialTimeout("tcp", fmt.Sprintf("127.0.0.1:%d", port), 10*time.Second)
	if err != nil {
		return "connect", err.Error()
	}
	defer conn.Close()
	cred := vCredSys(0, 0, nil)
	check := func(step string, xid uint32, rb []byte, prob string) (*wire.Reply, string) {
		if prob != "" {
			return nil, prob
		}
		rp, err := wire.ParseReply(rb)
		if err != nil {
			return nil, "malformed reply: " + err.Error()
		}
		if rp.Xid != xid || rp.Denied || rp.AcceptStat != 0 {
			return nil, fmt.Sprintf("unexpected reply xid=%#x denied=%v accept_stat=%d", rp.Xid, rp.Denied, rp.AcceptStat)
		}
		return rp, ""
	}
	rb, prob := rpcExchange(conn, wire.Call(0x2801, wire.ProgNFS, 3, 0, cred, nil))
	if _, p := check("NULL", 0x2801, rb, prob); p != "" {
		return "NULL", p
	}
	var a wire.Enc
	a.Str("/")
	rb, prob = rpcExchange(conn, wire.Call(0x2802, wire.ProgMount, 3, 1, cred, a.B))
	rp, p := check("MNT", 0x2802, rb, prob)
	if p != "" {
		return "MNT", p
	}
	m, err := wire.DecodeMount(1, rp.Result)
	if err != nil || m.Status != 0 {
		return "MNT", fmt.Sprintf("MNT result: %v status=%d", err, m.Status)
	}
	h, _ := wire.FHVal(m.FH)
	var g wire.Enc
	g.FH(h)
	rb, prob = rpcExchange(conn, wire.Call(0x2803, wire.ProgNFS, 3, wire.GETATTR, cred, g.B))
	rp, p = check("GETATTR", 0x2803, rb, prob)
	if p != "" {
		return "GETATTR", p
	}
	res, err := wire.DecodeNFS(wire.GETATTR, rp.Result)
	if err != nil || res.Status != 0 || res.Attr == nil || res.Attr.Type != 2 {
		return "GETATTR", fmt.Sprintf("GETATTR of the mounted handle: %v %+v", err, res)
	}
	// a call split into three fragments
	rb, prob = rpcExchange(conn, wire.Call(0x2804, wire.ProgNFS, 3, wire.GETATTR, cred, g.B), 5, 11)
	if _, p := check("GETATTR-fragmented", 0x2804, rb, prob); p != "" {
		return "GETATTR-fragmented", p
	}
	return "", ""
}

// c28GetPort asks the portmapper on 127.0.0.1:111 (portmap v2 over record-marked TCP).
func c28GetPort(prog, vers uint32) (int, string) {
	conn, err := net.DialTimeout("tcp", "127.0.0.1:111", 10*time.Second)
	if err != nil {
		return 0, "portmapper-not-reachable"
	}
	defer conn.Close()
	var a wire.Enc
	a.U32(prog).U32(vers).U32(6).U32(0)
	rb, prob := rpcExchange(conn, wire.Call(0x2811, 100000, 2, 3, vCredSys(0, 0, nil), a.B))
	if prob != "" {
		return 0, "no-well-formed-reply"
	}
	rp, err := wire.ParseReply(rb)
	if err != nil || rp.Xid != 0x2811 || rp.Denied || rp.AcceptStat != 0 || len(rp.Result) != 4 {
		return 0, "no-well-formed-reply"
	}
	return int(uint32(rp.Result[0])<<24 | uint32(rp.Result[1])<<16 | uint32(rp.Result[2])<<8 | uint32(rp.Result[3])), ""
}

func c28One(c *vCtx, cs c28Case) {
	c.beat(func() any { return cs })
	c.res.Evaluations++
	fs := recfs.New()
	fs.NoLog = true
	nfs, err := New(fs, ExportOptions{MaxWorkers: 2})
	vMust(err, "New")
	defer nfs.Close()
	port := 0
	if cs.Explicit {
		port = c28FreePort()
	}
	bad := func(sig, msg string) {
		c.violation("C28|"+sig, fmt.Sprintf("%+v: %s", cs, msg), cs)
	}
	var listenPort int
	switch cs.Path {
	case "export":
		if err := nfs.Export("/", port); err != nil {
			bad("start-fails|path=export", err.Error())
			return
		}
		if cs.Second {
			nfs.Unexport()
			if cs.Explicit {
				port = c28FreePort()
			}
			if err := nfs.Export("/", port); err != nil {
				bad("start-fails|path=export-again", err.Error())
				return
			}
		}
		listenPort = nfs.exportServer.GetPort()
		defer nfs.Unexport()
	case "listen-rm", "portmapper":
		srv, err := NewServer(ServerOptions{Port: port, Hostname: "127.0.0.1", UseRecordMarking: cs.Path == "listen-rm", Debug: cs.Debug})
		vMust(err, "NewServer")
		srv.SetHandler(nfs)
		if cs.Path == "portmapper" {
			if err := srv.StartWithPortmapper(); err != nil {
				c.res.Exhaustive = false
				c.note("StartWithPortmapper could not start (port 111 not available here): %v — path not explored", err)
				return
			}
		} else if err := srv.Listen(); err != nil {
			bad("start-fails|path="+cs.Path, err.Error())
			return
		}
		defer srv.Stop()
		listenPort = srv.GetPort()
	}
	if cs.Path == "portmapper" {
		// a standard client finds the services through the portmapper on port 111 and then
		// talks to the ports it advertises
		for _, pv := range [][2]uint32{{wire.ProgNFS, 3}, {wire.ProgMount, 3}, {wire.ProgMount, 1}} {
			adv, prob := c28GetPort(pv[0], pv[1])
			if prob != "" {
				bad(fmt.Sprintf("standard-client-not-served|path=portmapper|step=GETPORT|how=%s", prob), fmt.Sprintf("PMAPPROC_GETPORT(prog=%d, vers=%d, tcp) on port 111: %s", pv[0], pv[1], prob))
				return
			}
			if adv != listenPort {
				bad("standard-client-not-served|path=portmapper|step=GETPORT|how=advertised-port-is-not-the-listening-port",
					fmt.Sprintf("the portmapper advertises program %d version %d on tcp port %d, the server listens on %d (ServerOptions.Port=%d)", pv[0], pv[1], adv, listenPort, port))
				return
			}
		}
	}
	step, prob := c28Dialogue(listenPort)
	if prob != "" {
		kind := "other"
		switch {
		case len(prob) > 17 && prob[:17] == "connection-closed":
			kind = "connection-closed-without-reply"
		case len(prob) > 8 && prob[:8] == "no-reply":
			kind = "no-reply"
		case len(prob) > 9 && prob[:9] == "reply-not":
			kind = "reply-not-record-marked"
		}
		bad(fmt.Sprintf("standard-client-not-served|path=%s|step=%s|how=%s", cs.Path, step, kind), prob)
		return
	}
	c.outcome(cs.Path + ":served")
}

func init() {
	vRegister(&vCheck{
		id: "C28", level: "exploration", flavour: "plain",
		shards: func(string) int { return 1 },
		rule: "complete enumeration of the public start-up paths: AbsfsNFS.Export (port 0 / explicit free port; first export and re-export after Unexport), NewServer+Listen with UseRecordMarking (port 0 / explicit; Debug off/on), StartWithPortmapper (port 0 / explicit; Debug off/on; the client first asks the portmapper on port 111 for NFS v3, MOUNT v3 and MOUNT v1 over TCP and the advertised port must be the listening port); each started for real on loopback TCP and driven by a conformant ONC RPC client (record marking, AUTH_SYS): NULL, MNT /, GETATTR of the mounted handle, and a GETATTR split into three fragments. Verdicts are structural: well-formed reply / connection closed or reset / bytes that are not a record / nothing for 40 s (longer than the server's own read deadlines).",
		assumptions: []string{"the configuration space is enumerated completely; the I/O inside one case is a single real execution", "StartWithPortmapper needs port 111; if it cannot be bound the path is reported as not explored"},
		run: func(c *vCtx) {
			var cases []c28Case
			for _, ex := range []bool{false, true} {
				cases = append(cases, c28Case{Path: "export", Explicit: ex}, c28Case{Path: "export", Explicit: ex, Second: true})
				for _, dbg := range []bool{false, true} {
					cases = append(cases, c28Case{Path: "listen-rm", Explicit: ex, Debug: dbg})
				}
			}
			for _, dbg := range []bool{false, true} {
				cases = append(cases, c28Case{Path: "portmapper", Debug: dbg}, c28Case{Path: "portmapper", Explicit: true, Debug: dbg})
			}
			for _, cs := range cases {
				c28One(c, cs)
				c.res.Distinct++
				c.sample(cs)
			}
		},
		replay: func(c *vCtx, raw json.RawMessage) {
			var cs c28Case
			vMust(json.Unmarshal(raw, &cs), "case")
			c28One(c, cs)
		},
	})
}
