package absnfs

// C03 — CREATE never destroys or silently reuses an existing file.
// Complete product of create mode x object at the target name x sattr3 x
// verifier x origin of the existing object, each on a fresh instance.

import (
	"encoding/json"
	"fmt"

	"github.com/absfs/absnfs/internal/verif/recfs"
	"github.com/absfs/absnfs/internal/verif/wire"
)

type c03Case struct {
	How    string  `json:"how"`    // UNCHECKED GUARDED EXCLUSIVE
	Exist  string  `json:"exist"`  // none file empty dir link-file link-dangling
	Origin string  `json:"origin"` // preexisting | unchecked | exclusive-V  (how the existing file came to be)
	Mode   *uint32 `json:"mode"`
	Size   *uint64 `json:"size"`
	IDs    bool    `json:"ids"`
	Times  int     `json:"times"`
	Verf   string  `json:"verf"` // V | W
}

func c03Create(e *vEnv, root uint64, how string, sat wire.Sattr, verf string) (*wire.NFSRes, error) {
	var a wire.Enc
	a.FH(root).Str("t")
	switch how {
	case "UNCHECKED":
		a.U32(0).Sattr(sat)
	case "GUARDED":
		a.U32(1).Sattr(sat)
	case "EXCLUSIVE":
		v := []byte("VVVVVVVV")
		if verf == "W" {
			v = []byte("WWWWWWWW")
		}
		a.U32(2).Raw(v)
	}
	res, rp, err := e.nfsCall(wire.CREATE, a.B)
	if err != nil {
		return res, err
	}
	if res == nil {
		return nil, fmt.Errorf("CREATE not accepted (denied=%v accept=%d)", rp.Denied, rp.AcceptStat)
	}
	return res, nil
}

func c03One(c *vCtx, cs c03Case) {
	c.beat(func() any { return cs })
	c.res.Evaluations++
	e, err := vNewEnv(ExportOptions{AttrCacheTimeout: 1}, func(fs *recfs.FS) {
		f, _ := fs.Create("/other")
		f.Write([]byte("other"))
		f.Close()
		f, _ = fs.Create("/tgt")
		f.Write([]byte("target-data"))
		f.Close()
	})
	vMust(err, "env")
	defer e.close()
	root, err := e.mnt("/")
	vMust(err, "mnt")
	in := e.fs.Inner()
	switch cs.Exist {
	case "file", "empty":
		switch cs.Origin {
		case "preexisting":
			f, err := in.Create("/t")
			vMust(err, "plant")
			if cs.Exist == "file" {
				f.Write([]byte("precious"))
			}
			f.Close()
			vMust(in.Chmod("/t", 0o600), "chmod")
		case "unchecked", "exclusive-V":
			how := "UNCHECKED"
			if cs.Origin == "exclusive-V" {
				how = "EXCLUSIVE"
			}
			res, err := c03Create(e, root, how, wire.Sattr{}, "V")
			if err != nil || res.Status != 0 {
				c.violation("C03|setup-create-failed|how="+how, fmt.Sprintf("first %s create of a new name failed: %v %+v", how, err, res), cs)
				return
			}
			if cs.Exist == "file" {
				h, _ := wire.FHVal(res.FH)
				var w wire.Enc
				w.FH(h).U64(0).U32(8).U32(2).Opaque([]byte("precious"))
				wr, _, err := e.nfsCall(wire.WRITE, w.B)
				if err != nil || wr == nil || wr.Status != 0 {
					vMust(fmt.Errorf("%v %+v", err, wr), "setup write")
				}
			}
		}
	case "dir":
		vMust(in.Mkdir("/t", 0o755), "plant dir")
		f, _ := in.Create("/t/child")
		f.Close()
	case "link-file":
		vMust(in.Symlink("tgt", "/t"), "plant link")
	case "link-dangling":
		vMust(in.Symlink("nowhere", "/t"), "plant link")
	}
	before := e.fs.DumpString()
	sat := wire.Sattr{Mode: cs.Mode, Size: cs.Size, Atime: cs.Times, Mtime: cs.Times}
	if cs.Times == 2 {
		sat.AtimeV, sat.MtimeV = [2]uint32{1000, 5}, [2]uint32{2000, 6}
	}
	if cs.IDs {
		sat.UID, sat.GID = wire.U32p(77), wire.U32p(88)
	}
	res, err := c03Create(e, root, cs.How, sat, cs.Verf)
	if err != nil {
		c.violation("C03|harness-call-failed", err.Error(), cs)
		return
	}
	after := e.fs.DumpString()
	c.outcome(fmt.Sprintf("%s/%s/%s:%s", cs.How, cs.Exist, cs.Origin, wire.StatName(res.Status)))
	const EXIST = 17
	exists := cs.Exist != "none"
	sizeSet := cs.How != "EXCLUSIVE" && cs.Size != nil
	// data of every object that existed before
	type obj struct{ kind, data, target string }
	parse := func(fs *recfs.FS) map[string]obj {
		m := map[string]obj{}
		for _, n := range fs.Dump() {
			m[n.Path] = obj{n.Kind, n.Data, n.Target}
		}
		return m
	}
	_ = parse
	switch {
	case !exists:
		if res.Status != 0 {
			c.violation(fmt.Sprintf("C03|create-of-new-name-fails|how=%s", cs.How), fmt.Sprintf("%s create of a new name: %s", cs.How, wire.StatName(res.Status)), cs)
		}
	case cs.How == "GUARDED":
		if res.Status != EXIST {
			c.violation(fmt.Sprintf("C03|guarded-create-of-existing-name-not-EXIST|exist=%s|status=%s", cs.Exist, wire.StatName(res.Status)),
				fmt.Sprintf("GUARDED create over an existing %s replied %s, expected NFS3ERR_EXIST", cs.Exist, wire.StatName(res.Status)), cs)
		}
		if after != before {
			c.violation(fmt.Sprintf("C03|guarded-create-modifies-existing-object|exist=%s", cs.Exist),
				fmt.Sprintf("GUARDED create over an existing %s changed the tree:\nbefore:\n%safter:\n%s", cs.Exist, before, after), cs)
		}
	case cs.How == "EXCLUSIVE":
		retransmission := cs.Origin == "exclusive-V" && cs.Verf == "V"
		if retransmission {
			if res.Status != 0 {
				c.violation("C03|exclusive-retransmission-fails", fmt.Sprintf("EXCLUSIVE create repeated with the same verifier replied %s", wire.StatName(res.Status)), cs)
			}
		} else if res.Status != EXIST {
			c.violation(fmt.Sprintf("C03|exclusive-create-of-foreign-object-not-EXIST|exist=%s|status=%s", cs.Exist, wire.StatName(res.Status)),
				fmt.Sprintf("EXCLUSIVE create (verifier %s) over an existing %s (origin %s) replied %s, expected NFS3ERR_EXIST", cs.Verf, cs.Exist, cs.Origin, wire.StatName(res.Status)), cs)
		}
		if after != before {
			c.violation(fmt.Sprintf("C03|exclusive-create-modifies-existing-object|exist=%s|retransmission=%v", cs.Exist, retransmission),
				fmt.Sprintf("EXCLUSIVE create over an existing %s changed the tree:\nbefore:\n%safter:\n%s", cs.Exist, before, after), cs)
		}
	default: // UNCHECKED over an existing object: data may change only through an explicit size
		bm, am := map[string]recfs.Node{}, map[string]recfs.Node{}
		for _, n := range e.fs.Dump() {
			am[n.Path] = n
		}
		_ = bm
		// compare data of pre-existing regular files
		for _, p := range []string{"/t", "/tgt", "/other", "/t/child"} {
			bn, bok := dumpFind(before, p)
			an, aok := am[p]
			if !bok {
				continue
			}
			if !aok {
				c.violation(fmt.Sprintf("C03|unchecked-create-removes-object|exist=%s", cs.Exist), fmt.Sprintf("%s disappeared", p), cs)
				continue
			}
			want := bn
			line := fmt.Sprintf("%s %s %o %d %q %q\n", an.Path, an.Kind, an.Perm, an.Size, an.Data, an.Target)
			if line == want {
				continue
			}
			if an.Kind == "f" && sizeSet && p == "/t" && uint64(an.Size) == *cs.Size {
				continue // resized to exactly the explicit size
			}
			// permission bits may change through an explicit mode; data must not
			bd, ad := dumpData(bn), fmt.Sprintf("%q", an.Data)
			if bd == ad && dumpKind(bn) == an.Kind {
				continue
			}
			c.violation(fmt.Sprintf("C03|unchecked-create-rewrites-existing-data|exist=%s|size-set=%v", cs.Exist, sizeSet),
				fmt.Sprintf("UNCHECKED create (size %v) over an existing %s changed %s: before %safter  %s", derefU64(cs.Size), cs.Exist, p, bn, line), cs)
		}
	}
}

func derefU64(p *uint64) any {
	if p == nil {
		return "unset"
	}
	return *p
}

// dumpFind returns the dump line for path p.
func dumpFind(dump, p string) (string, bool) {
	start := 0
	for i := 0; i <= len(dump); i++ {
		if i == len(dump) || dump[i] == '\n' {
			line := dump[start:i]
			if len(line) > len(p) && line[:len(p)] == p && line[len(p)] == ' ' {
				return line + "\n", true
			}
			start = i + 1
		}
	}
	return "", false
}

func dumpKind(line string) string {
	var p, k string
	fmt.Sscanf(line, "%s %s", &p, &k)
	return k
}

func dumpData(line string) string {
	var p, k string
	var perm, size int
	var data string
	fmt.Sscanf(line, "%s %s %o %d %q", &p, &k, &perm, &size, &data)
	return fmt.Sprintf("%q", data)
}

func init() {
	vRegister(&vCheck{
		id: "C03", level: "exploration", flavour: "vtime",
		shards: func(string) int { return 8 },
		rule: "complete product: create mode {UNCHECKED,GUARDED,EXCLUSIVE} x object at the name {none, regular file with data, empty file, directory with a child, symlink to a file with data, dangling symlink} x origin of an existing regular file {planted in the backend, created earlier by UNCHECKED, created earlier by EXCLUSIVE with verifier V} x sattr3 {mode unset/0600} x {size unset/0/2/20} x {uid+gid unset/set} x {times unset/server/client} x verifier {V,W}; each on a fresh instance. Oracle: statement of C03 on the reply status and on a byte-exact dump of the backend tree before/after (a size in sattr3 is the only licence to change a file's length). Non-trivial = the name exists.",
		assumptions: []string{"UNCHECKED over an existing regular file with an explicit size may leave the file unchanged or resize it to exactly that size", "permission bits are only compared for GUARDED/EXCLUSIVE (must be untouched)"},
		run: func(c *vCtx) {
			idx := 0
			modes := []*uint32{nil, wire.U32p(0o600)}
			sizes := []*uint64{nil, wire.U64p(0), wire.U64p(2), wire.U64p(20)}
			for _, how := range []string{"UNCHECKED", "GUARDED", "EXCLUSIVE"} {
				for _, ex := range []string{"none", "file", "empty", "dir", "link-file", "link-dangling"} {
					origins := []string{"preexisting"}
					if ex == "file" || ex == "empty" {
						origins = []string{"preexisting", "unchecked", "exclusive-V"}
					}
					for _, or := range origins {
						for _, m := range modes {
							for _, sz := range sizes {
								for _, ids := range []bool{false, true} {
									for _, tm := range []int{0, 1, 2} {
										for _, vf := range []string{"V", "W"} {
											if how != "EXCLUSIVE" && vf == "W" {
												continue
											}
											if how == "EXCLUSIVE" && (m != nil || sz != nil || ids || tm != 0) {
												continue
											}
											idx++
											if !c.mine(idx) {
												continue
											}
											cs := c03Case{How: how, Exist: ex, Origin: or, Mode: m, Size: sz, IDs: ids, Times: tm, Verf: vf}
											c03One(c, cs)
											if ex != "none" {
												c.res.Distinct++
											}
											if idx%53 == 0 {
												c.sample(cs)
											}
										}
									}
								}
							}
						}
					}
				}
			}
			c.res.Bounds["cases_total"] = idx
		},
		replay: func(c *vCtx, raw json.RawMessage) {
			var cs c03Case
			vMust(json.Unmarshal(raw, &cs), "case")
			c03One(c, cs)
		},
	})
}
