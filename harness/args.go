package absnfs

import "github.com/absfs/absnfs/internal/verif/wire"

// c14Args returns well-formed arguments for (prog, proc) using a directory
// handle and a file handle. Names used: existing file "f", directory "d",
// new names "new", "newd", "newl", "nod", "g", "hl".
func c14Args(prog, proc uint32, dirH, fileH uint64) []byte {
	var a wire.Enc
	mode := wire.Sattr{Mode: wire.U32p(0o644)}
	if prog == wire.ProgMount {
		switch proc {
		case 1, 3:
			a.Str("/")
		}
		return a.B
	}
	switch proc {
	case wire.NULL:
	case wire.GETATTR, wire.READLINK:
		a.FH(fileH)
	case wire.SETATTR:
		a.FH(fileH).Sattr(mode).U32(0)
	case wire.LOOKUP:
		a.FH(dirH).Str("f")
	case wire.ACCESS:
		a.FH(fileH).U32(0x3f)
	case wire.READ:
		a.FH(fileH).U64(0).U32(4)
	case wire.WRITE:
		a.FH(fileH).U64(0).U32(2).U32(2).Opaque([]byte("hi"))
	case wire.CREATE:
		a.FH(dirH).Str("new").U32(0).Sattr(mode)
	case wire.MKDIR:
		a.FH(dirH).Str("newd").Sattr(wire.Sattr{Mode: wire.U32p(0o755)})
	case wire.SYMLINK:
		a.FH(dirH).Str("newl").Sattr(wire.Sattr{}).Str("f")
	case wire.MKNOD:
		a.FH(dirH).Str("nod").U32(7).Sattr(mode)
	case wire.REMOVE:
		a.FH(dirH).Str("f")
	case wire.RMDIR:
		a.FH(dirH).Str("d")
	case wire.RENAME:
		a.FH(dirH).Str("f").FH(dirH).Str("g")
	case wire.LINK:
		a.FH(fileH).FH(dirH).Str("hl")
	case wire.READDIR:
		a.FH(dirH).U64(0).Raw(make([]byte, 8)).U32(4096)
	case wire.READDIRPLUS:
		a.FH(dirH).U64(0).Raw(make([]byte, 8)).U32(4096).U32(8192)
	case wire.FSSTAT, wire.FSINFO, wire.PATHCONF:
		a.FH(dirH)
	case wire.COMMIT:
		a.FH(fileH).U64(0).U32(0)
	}
	return a.B
}
