// Package vsched is a cooperative, controlled scheduler for stateless model
// checking of Go code whose synchronisation operations have been rewritten to
// the shims built on it (vsync, vatomic, vctx, vstime, Chan).
//
// Every virtual thread is a real goroutine, but exactly one runs at a time: a
// thread only gives up control inside Point (called before every visible
// operation). The scheduler knows the state of every shim object, so whether
// a pending operation is enabled is computed, never discovered by blocking.
// Choices (which enabled thread runs next, which ready select case is taken,
// whether a timer fires before quiescence) are numbered; an execution is
// determined by its choice sequence and can be replayed from it.
package vsched

import (
	"fmt"
	"reflect"
	"runtime"
	"runtime/debug"
	"sort"
	"strings"
	"sync"
	"time"
)

// Op is a pending visible operation of a thread.
type Op struct {
	Kind    string
	Obj     string
	Enabled func() bool // nil = always enabled
	Quiet   bool        // not a preemption point (no alternatives offered while enabled)
}

type thread struct {
	id      int
	name    string
	wake    chan struct{}
	pending *Op
	done    bool
	parent  int
	ops     int
	digest  uint64
	panicV  any
	stack   string
	exiting bool
	site    string // function containing the go statement that started the thread
}

// PointRec records one choice point of an execution.
type PointRec struct {
	N       int  // number of alternatives
	Chosen  int  // index taken
	Kind    byte // 't' thread choice, 's' select case
	Preempt bool // the running thread was still enabled: alternatives != 0 are preemptions
	Early   bool // the last alternative fires a timer before quiescence
}

// Timer is a pending virtual timer.
type Timer struct {
	at     time.Duration
	seq    int
	fire   func()
	name   string
	active bool
	late   bool // never fired before quiescence (harness waits)
}

// Result describes a finished execution.
type Result struct {
	Points      []PointRec
	Deadlock    bool
	Blocked     []string // threads still blocked at the end (name: op)
	Panics      []string // panics that escaped a thread
	Steps       int
	Diverged    string // replay divergence (a recorded choice was out of range)
	Now         time.Duration
	Threads     int
	HorizonHit  bool
	StepCap     bool
	ThreadNames []string
}

// Options of one execution.
type Options struct {
	Prefix   []int         // choices to replay; afterwards choice 0
	Horizon  time.Duration // virtual time after which no timer fires
	MaxSteps int           // safety cap on scheduling points (0 = 200000)
}

type sched struct {
	mu       sync.Mutex
	threads  []*thread
	cur      *thread
	opts     Options
	pos      int
	res      *Result
	now      time.Duration
	timers   []*Timer
	timerSeq int
	dying    bool
	finished chan struct{}
	steps    int
	allQuiet bool
}

// SetQuiet switches "set-up mode" on or off: while on, every point takes the
// default successor and offers no alternatives (used to build the initial
// state of a scenario deterministically inside the scheduler).
func SetQuiet(on bool) {
	if s != nil {
		s.allQuiet = on
	}
}

// CurrentOrigin returns the name of the nearest ancestor (or the thread
// itself) that was started with GoNamed by the harness, i.e. not by a
// rewritten go statement: the request a server-side goroutine belongs to.
func CurrentOrigin() string {
	if s == nil || s.cur == nil {
		return ""
	}
	t := s.cur
	for strings.HasPrefix(t.name, "go#") && t.parent >= 0 {
		t = s.threads[t.parent]
	}
	return t.name
}

var s *sched // the execution in progress (one at a time per process)

// Active reports whether a controlled execution is in progress.
func Active() bool { return s != nil && !s.dying }

// Dying reports whether the execution is being unwound.
func Dying() bool { return s != nil && s.dying }

// Now returns the virtual time of the current execution.
func Now() time.Duration {
	if s == nil {
		return 0
	}
	return s.now
}

// Advance moves the virtual clock forward without firing timers (due timers
// fire at the next quiescence or as an early-timer deviation).
func Advance(d time.Duration) {
	if s != nil {
		s.now += d
	}
}

// CurrentID returns the id of the running virtual thread (-1 outside).
func CurrentID() int {
	if s == nil || s.cur == nil {
		return -1
	}
	return s.cur.id
}

// CurrentName returns the name of the running virtual thread ("" outside).
func CurrentName() string {
	if s == nil || s.cur == nil {
		return ""
	}
	return s.cur.name
}

// ThreadCount returns the number of threads created so far.
func ThreadCount() int {
	if s == nil {
		return 0
	}
	return len(s.threads)
}

// AliveSites returns "name @site" of the unfinished threads started by go statements.
func AliveSites() []string {
	var out []string
	if s == nil {
		return out
	}
	for _, t := range s.threads {
		if !t.done && strings.HasPrefix(t.name, "go#") {
			out = append(out, t.name+" @"+t.site)
		}
	}
	return out
}

// Alive returns the names of threads that have not finished.
func Alive() []string {
	var out []string
	if s == nil {
		return out
	}
	for _, t := range s.threads {
		if !t.done {
			out = append(out, t.name)
		}
	}
	return out
}

// Run executes root as thread 0 under the scheduler and returns when every
// thread has finished, the execution deadlocked, or the step cap was hit.
// Threads that are still blocked are unwound with runtime.Goexit.
func Run(opts Options, root func()) *Result {
	if opts.MaxSteps == 0 {
		opts.MaxSteps = 200000
	}
	sc := &sched{opts: opts, res: &Result{}, finished: make(chan struct{})}
	s = sc
	sc.spawn("root", -1, root)
	sc.cur = sc.threads[0]
	sc.threads[0].wake <- struct{}{}
	<-sc.finished
	sc.res.Steps = sc.steps
	sc.res.Now = sc.now
	sc.res.Threads = len(sc.threads)
	for _, t := range sc.threads {
		sc.res.ThreadNames = append(sc.res.ThreadNames, t.name)
	}
	s = nil
	return sc.res
}

func (sc *sched) spawn(name string, parent int, f func()) *thread {
	t := &thread{id: len(sc.threads), name: fmt.Sprintf("%s#%d", name, len(sc.threads)), wake: make(chan struct{}, 1), parent: parent}
	t.pending = &Op{Kind: "start"} // runnable from the moment it is spawned
	sc.threads = append(sc.threads, t)
	go func() {
		<-t.wake
		t.pending = nil
		defer func() {
			if r := recover(); r != nil && !sc.dying {
				t.panicV = r
				t.stack = string(debug.Stack())
				sc.res.Panics = append(sc.res.Panics, fmt.Sprintf("%s: %v", t.name, r))
			}
			t.done = true
			t.pending = nil
			if sc.dying {
				sc.unwindNext()
				return
			}
			sc.schedule(t)
		}()
		if sc.dying {
			return
		}
		f()
	}()
	return t
}

// Go starts a new virtual thread (the rewritten form of a go statement).
func Go(f func()) {
	site := ""
	if s != nil {
		if pc, _, _, ok := runtime.Caller(1); ok {
			if fn := runtime.FuncForPC(pc); fn != nil {
				site = fn.Name()
				if i := strings.LastIndexByte(site, '/'); i >= 0 {
					site = site[i+1:]
				}
			}
		}
	}
	GoNamed("go", f)
	if s != nil && site != "" && len(s.threads) > 0 {
		if t := s.threads[len(s.threads)-1]; strings.HasPrefix(t.name, "go#") && t.site == "" {
			t.site = site
		}
	}
}

// GoNamed starts a named virtual thread.
func GoNamed(name string, f func()) {
	if s == nil {
		go f()
		return
	}
	if s.dying {
		return
	}
	parent := -1
	if s.cur != nil {
		parent = s.cur.id
	}
	s.spawn(name, parent, f)
}

// Point is called before every visible operation. It returns once the calling
// thread has been chosen to run with op enabled.
func Point(op *Op) {
	sc := s
	if sc == nil {
		return
	}
	if sc.dying {
		exitThread(sc)
		return
	}
	t := sc.cur
	t.pending = op
	t.ops++
	sc.schedule(t)
	if sc.dying {
		exitThread(sc)
		return
	}
	t.pending = nil
}

// exitThread unwinds the current thread with Goexit; when the thread is already
// unwinding (a deferred call reached a shim) it just returns.
func exitThread(sc *sched) {
	t := sc.cur
	if t != nil {
		if t.exiting {
			return
		}
		t.exiting = true
	}
	runtime.Goexit()
}

// Yield is a visible no-op (used inside polling loops of harness code).
func Yield() { Point(&Op{Kind: "yield"}) }

func (t *thread) enabled() bool {
	if t.done || t.pending == nil {
		return false
	}
	return t.pending.Enabled == nil || t.pending.Enabled()
}

// schedule picks the next thread to run. It is called by the running thread
// (self) either at a point or when it has finished; it returns when self is
// scheduled again (immediately if self is chosen), or never if self is done.
func (sc *sched) schedule(self *thread) {
	for {
		sc.steps++
		if sc.steps > sc.opts.MaxSteps {
			sc.res.StepCap = true
			sc.startUnwind(self)
			return
		}
		var en []*thread
		for _, t := range sc.threads {
			if t.enabled() {
				en = append(en, t)
			}
		}
		early := sc.earlyTimer()
		if len(en) == 0 {
			// quiescence: time passes
			if tm := sc.nextTimer(); tm != nil && (sc.opts.Horizon == 0 || tm.at <= sc.opts.Horizon) {
				sc.fireTimer(tm)
				continue
			}
			if tm := sc.nextTimer(); tm != nil {
				sc.res.HorizonHit = true
			}
			all := true
			for _, t := range sc.threads {
				if !t.done {
					all = false
					b := t.name + ": " + t.pending.Kind + " " + t.pending.Obj
					if t.site != "" {
						b += " @" + t.site
					}
					sc.res.Blocked = append(sc.res.Blocked, b)
				}
			}
			if !all && !sc.res.HorizonHit {
				sc.res.Deadlock = true
			}
			sc.startUnwind(self)
			return
		}
		// canonical order: the running thread first if it is still enabled, then ascending ids
		selfEnabled := self.enabled()
		ordered := make([]*thread, 0, len(en))
		if selfEnabled {
			ordered = append(ordered, self)
		}
		for _, t := range en {
			if t != self {
				ordered = append(ordered, t)
			}
		}
		n := len(ordered)
		quiet := (selfEnabled && self.pending.Quiet) || sc.allQuiet
		if quiet {
			n = 1 // the default successor, no alternatives offered
		}
		alts := n
		if early != nil && !quiet {
			alts++ // last alternative: fire the earliest timer now although threads are runnable
		}
		choice := 0
		if alts > 1 {
			choice = sc.choose(alts, 't', selfEnabled, early != nil && !quiet)
		}
		if early != nil && !quiet && choice == alts-1 {
			sc.fireTimer(early)
			continue
		}
		next := ordered[choice]
		if next == self {
			return
		}
		sc.cur = next
		next.wake <- struct{}{}
		if self.done {
			return
		}
		<-self.wake
		if sc.dying {
			return
		}
		return
	}
}

// choose records a choice point and returns the alternative to take.
func (sc *sched) choose(n int, kind byte, preempt, early bool) int {
	c := 0
	if sc.pos < len(sc.opts.Prefix) {
		c = sc.opts.Prefix[sc.pos]
		if c >= n {
			if sc.res.Diverged == "" {
				sc.res.Diverged = fmt.Sprintf("point %d: recorded choice %d but only %d alternatives", sc.pos, c, n)
			}
			c = 0
		}
	}
	sc.pos++
	sc.res.Points = append(sc.res.Points, PointRec{N: n, Chosen: c, Kind: kind, Preempt: preempt, Early: early})
	return c
}

// Choose lets shims record their own choice points (select cases).
func Choose(n int) int {
	if s == nil || n <= 1 {
		return 0
	}
	return s.choose(n, 's', false, false)
}

// ---- unwinding

func (sc *sched) startUnwind(self *thread) {
	sc.dying = true
	if self != nil && !self.done {
		// self is inside schedule() called from Point: Point will Goexit
		sc.cur = self
		return
	}
	sc.unwindNext()
}

// unwindNext wakes the next unfinished thread so that it exits; when none is
// left the execution is finished.
func (sc *sched) unwindNext() {
	for _, t := range sc.threads {
		if !t.done {
			sc.cur = t
			t.wake <- struct{}{}
			return
		}
	}
	select {
	case <-sc.finished:
	default:
		close(sc.finished)
	}
}

// ---- timers

// AddTimer registers a timer firing d after now.
func AddTimer(d time.Duration, name string, fire func()) *Timer {
	if s == nil {
		return nil
	}
	s.timerSeq++
	tm := &Timer{at: s.now + d, seq: s.timerSeq, fire: fire, name: name, active: true}
	s.timers = append(s.timers, tm)
	return tm
}

// Stop deactivates a timer; it reports whether the timer was still pending.
func (tm *Timer) Stop() bool {
	if tm == nil {
		return false
	}
	was := tm.active
	tm.active = false
	return was
}

// Reset re-arms a timer.
func (tm *Timer) Reset(d time.Duration) {
	if tm == nil || s == nil {
		return
	}
	tm.active = true
	tm.at = s.now + d
	found := false
	for _, x := range s.timers {
		if x == tm {
			found = true
		}
	}
	if !found {
		s.timers = append(s.timers, tm)
	}
}

func (sc *sched) nextTimer() *Timer {
	var best *Timer
	keep := sc.timers[:0]
	for _, tm := range sc.timers {
		if !tm.active {
			continue
		}
		keep = append(keep, tm)
		if best == nil || tm.at < best.at || (tm.at == best.at && tm.seq < best.seq) {
			best = tm
		}
	}
	sc.timers = keep
	return best
}

// earlyTimer returns the earliest pending timer that may be fired as a deviation.
func (sc *sched) earlyTimer() *Timer {
	sc.nextTimer() // drops inactive timers
	var best *Timer
	for _, tm := range sc.timers {
		if !tm.active || tm.late {
			continue
		}
		if best == nil || tm.at < best.at || (tm.at == best.at && tm.seq < best.seq) {
			best = tm
		}
	}
	if best == nil || (sc.opts.Horizon != 0 && best.at > sc.opts.Horizon) {
		return nil
	}
	return best
}

func (sc *sched) fireTimer(tm *Timer) {
	if tm.at > sc.now {
		sc.now = tm.at
	}
	tm.active = false
	tm.fire()
}

// Sleep blocks the calling thread for d of virtual time.
func Sleep(d time.Duration) {
	if s == nil {
		return
	}
	woken := false
	AddTimer(d, "sleep", func() { woken = true })
	Point(&Op{Kind: "sleep", Enabled: func() bool { return woken }})
}

// SleepQuiescent is Sleep for harness threads: its timer is never fired early, so
// the caller resumes at a moment when every other thread is blocked.
func SleepQuiescent(d time.Duration) {
	if s == nil {
		return
	}
	woken := false
	tm := AddTimer(d, "harness-sleep", func() { woken = true })
	tm.late = true
	Point(&Op{Kind: "sleep", Enabled: func() bool { return woken }})
}

// MapKeys returns the keys of m in a canonical order, so that rewritten `range` loops over
// maps are deterministic: ordered key kinds are sorted; keys that implement VerifOrder()
// are sorted by it; other keys come in Go's (random) order.
func MapKeys[K comparable, V any](m map[K]V) []K {
	keys := make([]K, 0, len(m))
	for k := range m {
		keys = append(keys, k)
	}
	if len(keys) < 2 {
		return keys
	}
	rank := func(k K) (int64, string, bool) {
		switch v := any(k).(type) {
		case string:
			return 0, v, true
		case int:
			return int64(v), "", true
		case int32:
			return int64(v), "", true
		case int64:
			return v, "", true
		case uint32:
			return int64(v), "", true
		case uint64:
			return int64(v >> 1), fmt.Sprint(v & 1), true
		case interface{ VerifOrder() int }:
			return int64(v.VerifOrder()), "", true
		case fmt.Stringer:
			return 0, v.String(), true
		}
		rv := reflect.ValueOf(k)
		switch rv.Kind() {
		case reflect.String:
			return 0, rv.String(), true
		case reflect.Int, reflect.Int8, reflect.Int16, reflect.Int32, reflect.Int64:
			return rv.Int(), "", true
		case reflect.Uint, reflect.Uint8, reflect.Uint16, reflect.Uint32, reflect.Uint64:
			return int64(rv.Uint()), "", true
		}
		return 0, "", false
	}
	if _, _, ok := rank(keys[0]); !ok {
		return keys
	}
	sort.SliceStable(keys, func(i, j int) bool {
		a, as, _ := rank(keys[i])
		b, bs, _ := rank(keys[j])
		if a != b {
			return a < b
		}
		return as < bs
	})
	return keys
}

// ---- summary helpers

// Summary renders a result compactly (for outcome classification).
func (r *Result) Summary() string {
	var parts []string
	if r.Deadlock {
		parts = append(parts, "deadlock")
	}
	if len(r.Blocked) > 0 {
		b := append([]string(nil), r.Blocked...)
		sort.Strings(b)
		parts = append(parts, "blocked["+strings.Join(b, "; ")+"]")
	}
	if len(r.Panics) > 0 {
		parts = append(parts, "panics["+strings.Join(r.Panics, "; ")+"]")
	}
	if len(parts) == 0 {
		return "completed"
	}
	return strings.Join(parts, " ")
}

// Choices returns the choice sequence of the execution.
func (r *Result) Choices() []int {
	out := make([]int, len(r.Points))
	for i, p := range r.Points {
		out[i] = p.Chosen
	}
	return out
}
