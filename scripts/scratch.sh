#!/bin/bash
# scratch.sh <dir>: make a scratch copy of /repo's working tree (sources only) at <dir>
set -e
D=$1
rm -rf "$D"; mkdir -p "$D"
rsync -a --exclude .git --exclude docs --exclude examples /repo/ "$D"/
