package absnfs

// C17 — connections are bounded, accounted, reaped when idle, and fully shut down.

import (
	"encoding/json"
	"time"
)

func init() {
	vRegister(&vCheck{
		id: "C17", level: "model_checking", flavour: "sched", race: false,
		shards: func(string) int { return 16 },
		rule: "stateless model checking of the real Server (source-instrumented, controlled scheduler, virtual clock; net.Listen is the harness's scheduler-visible listener, connections are scheduler-visible net.Conns that honour read deadlines on the virtual clock). Scenarios: MaxConnections 1-2 with 2-4 clients that connect concurrently and either call and close, call and stay idle, or connect and close; afterwards 21 s of virtual time pass (IdleTimeout 10 s) and the server is stopped, or a stopper calls Stop concurrently with the clients. Every choice sequence within D-bound 2 (thorough D-bound 3, P-bound 2) is executed; early firing of the earliest pending timer (idle ticker, read deadlines, Stop's 5 s wait) is a deviation. Oracles: connections being served at once <= MaxConnections; connCount == |tracked connections| and 0 <= connCount <= MaxConnections whenever no thread is inside the bookkeeping critical section; after the idle period every accepted connection is closed and connCount is 0; when Stop returns nil: listener closed, every accepted connection closed, none served, connCount 0, no accept/connection/idle goroutine alive; at the end nothing started by the server is blocked forever; a second Stop is harmless. Close clause: after real traffic (MNT, LOOKUPs, READDIR) with a connection left open, all 27 sequences of three calls from {Close, Unexport, Stop} run sequentially, and Close / Unexport (thorough: Stop) also run concurrently with a second client's MNT+LOOKUP under the scheduler: no call fails or blocks, connections are closed when a call returns, Close/Unexport leave zero handles and empty caches, and nothing reappears afterwards.",
		assumptions: []string{"the listener and connections are harness objects: TCP-specific socket options are not exercised",
			"scheduling points are the synchronisation operations of the instrumented package; plain memory accesses between them are atomic steps"},
		run: func(c *vCtx) {
			vSchedRunBudget(c, "C17", c17Scenarios(c.thorough()), []vPlan{{"D", 2}}, []vPlan{{"D", 3}, {"P", 2}}, 30*time.Minute)
		},
		replay: func(c *vCtx, raw json.RawMessage) { vSchedReplay(c, "C17", c17Scenarios(true), raw) },
	})
}
