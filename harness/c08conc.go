package absnfs

// C08.conc — the concurrent side of C08: read-only established at runtime while a
// modifying request is in flight (including one whose own timeout already expired).
// Reuses the C16 scenarios S1 and S4 and judges only the read-only clause.

import (
	"encoding/json"
	"strings"
	"time"

	"github.com/absfs/absnfs/internal/verif/vsched"
)

func c08ConcScenarios(thorough bool) []vScn {
	var out []vScn
	for _, scn := range c16Scenarios(thorough) {
		if !strings.HasPrefix(scn.name, "S1-") && !strings.HasPrefix(scn.name, "S4-") && !strings.HasPrefix(scn.name, "S3-") {
			continue
		}
		inner := scn.build
		scn.build = func() (func(), func(*vsched.Result) (string, []vScnBad)) {
			root, judge := inner()
			return root, func(res *vsched.Result) (string, []vScnBad) {
				outcome, bad := judge(res)
				var keep []vScnBad
				for _, b := range bad {
					if b.sig == "backend-modified-under-read-only" || b.sig == "panic" || b.sig == "setup-failed" {
						keep = append(keep, b)
					}
				}
				return outcome, keep
			}
		}
		out = append(out, scn)
	}
	return out
}

func init() {
	vRegister(&vCheck{
		id: "C08.conc", level: "model_checking", flavour: "sched",
		shards: func(string) int { return 16 },
		rule: "stateless model checking (controlled scheduler, source-instrumented server): a WRITE through HandleCall races UpdatePolicyOptions(ReadOnly=true) (C16 scenarios S1, S4 with the request's own timeout allowed to fire early, thorough: S3 with two racing updates); every backend call is a scheduling point; every choice sequence within D-bound 3 (thorough D-bound 4, P-bound 3). Oracle: once the update that establishes read-only has returned, no modifying backend call is issued by any request, including one that was admitted before the switch.",
		assumptions: []string{"scheduling points are the synchronisation operations of the instrumented package plus every backend call"},
		run: func(c *vCtx) {
			vSchedRunBudget(c, "C08", c08ConcScenarios(c.thorough()), []vPlan{{"D", 3}}, []vPlan{{"D", 4}, {"P", 3}}, 15*time.Minute)
		},
		replay: func(c *vCtx, raw json.RawMessage) { vSchedReplay(c, "C08", c08ConcScenarios(true), raw) },
	})
}
