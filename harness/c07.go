package absnfs

// C07 — the backend only sees clean in-export paths; symlink targets stay contained.
// Bounded-exhaustive product of adversarial name / target / dirpath strings in
// every name-taking procedure from three prior states; oracle = every path in
// the recording backend's log.

import (
	"encoding/json"
	"fmt"
	"path"
	"strings"

	"github.com/absfs/absnfs/internal/verif/recfs"
	"github.com/absfs/absnfs/internal/verif/wire"
)

type c07Case struct {
	Kind  string `json:"kind"`  // name | target | mnt | readlink
	Proc  string `json:"proc"`  // LOOKUP CREATE ... RENAME-from RENAME-to LINK
	State string `json:"state"` // root | deep | renamed
	S     string `json:"s"`     // the adversarial string (may contain NUL)
}

func c07ValidComponent(n string) bool {
	return n != "" && len(n) <= 255 && !strings.ContainsAny(n, "/\\\x00") && n != "." && n != ".."
}

func c07Strings(alpha []string, maxLen int) []string {
	out := []string{""}
	prev := []string{""}
	for l := 1; l <= maxLen; l++ {
		var cur []string
		for _, p := range prev {
			for _, a := range alpha {
				cur = append(cur, p+a)
			}
		}
		out = append(out, cur...)
		prev = cur
	}
	return out
}

func c07Names() []string {
	ns := c07Strings([]string{"a", ".", "/", "\\", "\x00", " "}, 4)
	a254 := strings.Repeat("a", 254)
	ns = append(ns, a254, a254+"a", a254+"aa", a254+"/", "a/..", "..\\a", ".. ", "\xc3\xa9", "a\x00/..", "../../etc", "e/../..", "...", "....")
	// the limit is in bytes, not characters: multi-byte names around it
	e2 := "\xc3\xa9" // 2 bytes, 1 rune
	ns = append(ns, strings.Repeat(e2, 127)+"a", strings.Repeat(e2, 128), strings.Repeat("\xe2\x82\xac", 86), strings.Repeat("\xf0\x9f\x98\x80", 64), strings.Repeat("\xff", 256))
	return ns
}

func c07Targets() []string {
	ts := c07Strings([]string{"a", ".", "/"}, 5)
	ts = append(ts, strings.Repeat("t", 8192), strings.Repeat("t", 8193), "a/../../b", "..a", "a..", "a/..b/c", "\\..\\a", "..\\..")
	return ts
}

type c07World struct {
	e      *vEnv
	h      uint64 // the directory handle used
	hpath  string
	h2     uint64 // second handle for RENAME/LINK (a file in the same dir)
	h2path string
}

func c07Setup(state string) *c07World {
	e, err := vNewEnv(ExportOptions{AttrCacheTimeout: 1}, func(fs *recfs.FS) {
		vMust(fs.MkdirAll("/d/e", 0o755), "mkdir")
		vMust(fs.Mkdir("/r", 0o755), "mkdir")
		for _, p := range []string{"/a", "/d/e/a", "/r/a", "/x", "/d/e/x", "/r/x"} {
			f, err := fs.Create(p)
			vMust(err, "create")
			f.Write([]byte("data"))
			f.Close()
		}
	})
	vMust(err, "env")
	w := &c07World{e: e}
	root, err := e.mnt("/")
	vMust(err, "mnt")
	switch state {
	case "root":
		w.h, w.hpath = root, "/"
	case "deep":
		d, err := e.lookupFH(root, "d")
		vMust(err, "lookup d")
		w.h, err = e.lookupFH(d, "e")
		vMust(err, "lookup e")
		w.hpath = "/d/e"
	case "renamed":
		var err error
		w.h, err = e.lookupFH(root, "r")
		vMust(err, "lookup r")
		w.hpath = "/r"
	}
	w.h2, err = e.lookupFH(w.h, "x")
	vMust(err, "lookup x")
	w.h2path = path.Join(w.hpath, "x")
	if state == "renamed" {
		var a wire.Enc
		a.FH(root).Str("r").FH(root).Str("r2")
		res, _, err := e.nfsCall(wire.RENAME, a.B)
		if err != nil || res == nil || res.Status != 0 {
			vMust(fmt.Errorf("%v %+v", err, res), "rename r")
		}
	}
	return w
}

func c07One(c *vCtx, cs c07Case) {
	c.beat(func() any { return cs })
	c.res.Evaluations++
	st := cs.State
	if st == "" {
		st = "root"
	}
	w := c07Setup(st)
	defer w.e.close()
	e := w.e
	from := e.fs.LogLen()
	var a wire.Enc
	mode := wire.Sattr{Mode: wire.U32p(0o644)}
	prog, proc := uint32(wire.ProgNFS), uint32(0)
	allowed := map[string]bool{w.hpath: true, w.h2path: true}
	names := []string{}
	switch cs.Kind {
	case "name":
		names = append(names, cs.S)
		switch cs.Proc {
		case "LOOKUP":
			proc = wire.LOOKUP
			a.FH(w.h).Str(cs.S)
		case "CREATE":
			proc = wire.CREATE
			a.FH(w.h).Str(cs.S).U32(0).Sattr(mode)
		case "CREATE-excl":
			proc = wire.CREATE
			a.FH(w.h).Str(cs.S).U32(2).Raw([]byte("verifier"))
		case "MKDIR":
			proc = wire.MKDIR
			a.FH(w.h).Str(cs.S).Sattr(mode)
		case "SYMLINK":
			proc = wire.SYMLINK
			a.FH(w.h).Str(cs.S).Sattr(wire.Sattr{}).Str("a")
		case "MKNOD":
			proc = wire.MKNOD
			a.FH(w.h).Str(cs.S).U32(7).Sattr(mode)
		case "REMOVE":
			proc = wire.REMOVE
			a.FH(w.h).Str(cs.S)
		case "RMDIR":
			proc = wire.RMDIR
			a.FH(w.h).Str(cs.S)
		case "RENAME-from":
			proc = wire.RENAME
			a.FH(w.h).Str(cs.S).FH(w.h).Str("new")
			names = append(names, "new")
		case "RENAME-to":
			proc = wire.RENAME
			a.FH(w.h).Str("a").FH(w.h).Str(cs.S)
			names = append(names, "a")
		case "LINK":
			proc = wire.LINK
			a.FH(w.h2).FH(w.h).Str(cs.S)
		}
	case "target":
		proc = wire.SYMLINK
		a.FH(w.h).Str("newlink").Sattr(wire.Sattr{}).Str(cs.S)
		names = append(names, "newlink")
	case "mnt":
		prog, proc = wire.ProgMount, 1
		a.Str(cs.S)
	case "readlink":
		// plant the link directly in the backend, then look it up and read it through the server
		if err := e.fs.Inner().Symlink(cs.S, path.Join(w.hpath, "planted")); err != nil {
			c.count("readlink_plant_refused_by_backend", 1)
			return
		}
		lh, err := e.lookupFH(w.h, "planted")
		if err != nil {
			c.count("readlink_lookup_failed", 1)
			return
		}
		from = e.fs.LogLen()
		proc = wire.READLINK
		a.FH(lh)
		allowed[path.Join(w.hpath, "planted")] = true
	}
	for _, n := range names {
		if c07ValidComponent(n) {
			allowed[path.Join(w.hpath, n)] = true
		}
	}
	rp, _, err := e.call(prog, 3, proc, a.B)
	log := e.fs.Snapshot()[from:]
	sigProc := cs.Proc
	if sigProc == "" {
		sigProc = cs.Kind
	}
	class := func(s string) string {
		switch {
		case strings.Contains(s, "\x00"):
			return "nul"
		case strings.Contains(s, "\\"):
			return "backslash"
		case strings.Contains(s, "/"):
			return "slash"
		case s == "." || s == "..":
			return "dot"
		case len(s) > 255:
			return "long"
		case s == "":
			return "empty"
		}
		return "plain"
	}
	for _, op := range log {
		for _, p := range []string{op.Path, op.Path2} {
			if p == "" {
				continue
			}
			if op.Name == "Symlink" && p == op.Path2 {
				continue // Path2 of Symlink is the target, judged below
			}
			if strings.Contains(p, "\x00") {
				c.violation(fmt.Sprintf("C07|nul-reaches-backend|via=%s", sigProc), fmt.Sprintf("%s with %q: backend call %s", sigProc, cs.S, op.String()), cs)
				continue
			}
			if !strings.HasPrefix(p, "/") || path.Clean(p) != p {
				c.violation(fmt.Sprintf("C07|unclean-path-reaches-backend|via=%s|input=%s", sigProc, class(cs.S)),
					fmt.Sprintf("%s with %q from handle %s: backend call %s has a path that is not absolute and normalized", sigProc, cs.S, w.hpath, op.String()), cs)
				continue
			}
			if cs.Kind == "mnt" {
				continue // MNT has no handle: absolute + normalized is the rule
			}
			if !allowed[p] {
				c.violation(fmt.Sprintf("C07|path-outside-handle-plus-component|via=%s|input=%s", sigProc, class(cs.S)),
					fmt.Sprintf("%s with %q from handle %s: backend call %s is neither the handle's path nor that path plus one validated component", sigProc, cs.S, w.hpath, op.String()), cs)
			}
		}
		if op.Name == "Symlink" {
			t := op.Path2
			badT := strings.HasPrefix(t, "/")
			for _, comp := range strings.Split(t, "/") {
				if comp == ".." {
					badT = true
				}
			}
			if badT || t == "" {
				c.violation("C07|escaping-symlink-created", fmt.Sprintf("SYMLINK created %s -> %q (absolute or with a '..' component)", op.Path, t), cs)
			}
		}
	}
	if cs.Kind == "readlink" && err == nil && rp != nil && !rp.Denied && rp.AcceptStat == 0 {
		if res, _ := wire.DecodeNFS(wire.READLINK, rp.Result); res != nil && res.Status == 0 {
			if !strings.HasPrefix(res.Link, "/") {
				for _, comp := range strings.Split(res.Link, "/") {
					if comp == ".." {
						c.violation("C07|readlink-returns-dotdot", fmt.Sprintf("READLINK returned relative target %q", res.Link), cs)
					}
				}
			}
			c.outcome("readlink:ok")
		} else if res != nil {
			c.outcome("readlink:" + wire.StatName(res.Status))
		}
	}
	if len(log) == 0 {
		c.outcome(sigProc + ":no-backend-call")
	} else {
		c.outcome(sigProc + ":backend-reached")
	}
}

func init() {
	vRegister(&vCheck{
		id: "C07", level: "exploration", flavour: "vtime",
		shards:      func(string) int { return 16 },
		rule:        "bounded-exhaustive: every string of length <=4 over {a . / \\ NUL space} (1555) plus 18 specials (254/255/256-byte names in ASCII, in 2-, 3- and 4-byte UTF-8 and in invalid UTF-8, '..\\a', NUL-then-traversal) as the name in LOOKUP, CREATE (UNCHECKED and EXCLUSIVE), MKDIR, SYMLINK, MKNOD, REMOVE, RMDIR, RENAME (each position), LINK, from three prior states (root handle, handle of /d/e, handle of a directory renamed after the handle was issued; quick uses root for all procedures and the other two for LOOKUP/CREATE/RENAME-to); every string of length <=5 over {a . /} (364) plus 8 specials as the SYMLINK target and as the target of a link planted in the backend and read with READLINK; every such string and name as the MNT dirpath. Each case on a fresh instance. Oracle: each path in the recording backend's log of the request is absolute, equals path.Clean of itself, and is the handle's path or that path plus the one validated component; no NUL reaches the backend; no created link is absolute or has a '..' component; READLINK never returns a relative target with '..'.",
		assumptions: []string{"for MNT (no handle involved) a backend path must be absolute and normalized", "random long strings of the property's quantifier are replaced by boundary-length strings (254..256, 8192, 8193)"},
		run: func(c *vCtx) {
			names := c07Names()
			targets := c07Targets()
			procs := []string{"LOOKUP", "CREATE", "CREATE-excl", "MKDIR", "SYMLINK", "MKNOD", "REMOVE", "RMDIR", "RENAME-from", "RENAME-to", "LINK"}
			idx := 0
			do := func(cs c07Case) {
				idx++
				if !c.mine(idx) {
					return
				}
				c07One(c, cs)
				c.res.Distinct++
				if idx%2503 == 0 {
					c.sample(map[string]any{"kind": cs.Kind, "proc": cs.Proc, "state": cs.State, "s": fmt.Sprintf("%q", cs.S)})
				}
			}
			for _, st := range []string{"root", "deep", "renamed"} {
				for _, p := range procs {
					if st != "root" && !c.thorough() && p != "LOOKUP" && p != "CREATE" && p != "RENAME-to" {
						continue
					}
					for _, n := range names {
						do(c07Case{Kind: "name", Proc: p, State: st, S: n})
					}
				}
				for _, t := range targets {
					do(c07Case{Kind: "target", State: st, S: t})
					do(c07Case{Kind: "readlink", State: st, S: t})
				}
			}
			for _, t := range targets {
				do(c07Case{Kind: "mnt", S: t})
				do(c07Case{Kind: "mnt", S: "/" + t})
			}
			for _, n := range names {
				do(c07Case{Kind: "mnt", S: n})
				do(c07Case{Kind: "mnt", S: "/" + n})
			}
			c.res.Bounds["names"] = len(names)
			c.res.Bounds["targets"] = len(targets)
			c.res.Bounds["cases_total"] = idx
		},
		replay: func(c *vCtx, raw json.RawMessage) {
			var cs c07Case
			vMust(json.Unmarshal(raw, &cs), "case")
			c07One(c, cs)
		},
	})
}
