#!/usr/bin/env python3
"""seedkeep.py <ID> <agent-worktree> [--name <slug>] [--checks C01,C02]
Confirms a seeded property-breaking change produced by a sub-agent and stores it under /verif/seeded/<slug>/:
  * takes the non-test diff of the agent's worktree (patch.diff) and its demonstration test + DEMO.md,
  * in a fresh scratch worktree of /repo HEAD: demo passes on the original tree, the patch applies and builds,
    the complete existing suite passes with the patch, the demo fails with the patch,
  * runs the named checks (default: the property's own check, quick tier) against the patched scratch tree,
  * writes meta.json (what was confirmed, which checks caught it with which signatures)."""
import json, os, shutil, subprocess, sys, time

V = "/verif"
env = dict(os.environ, GOFLAGS="-mod=mod", GOPROXY="off", GOSUMDB="off", GOTOOLCHAIN="local")


def sh(cmd, cwd=None, timeout=3000, **kw):
    return subprocess.run(cmd, cwd=cwd, env=env, capture_output=True, text=True, timeout=timeout, **kw)


def main():
    args = sys.argv[1:]
    pid, wt = args[0], args[1]
    slug = args[args.index("--name") + 1] if "--name" in args else pid
    checks = args[args.index("--checks") + 1].split(",") if "--checks" in args else [pid]
    tier = args[args.index("--tier") + 1] if "--tier" in args else "quick"
    out = f"{V}/seeded/{slug}"
    os.makedirs(out, exist_ok=True)
    diff = sh(["git", "diff", "--", ".", ":(exclude)*_test.go"], cwd=wt).stdout
    if not diff.strip():
        print("no non-test diff in", wt)
        return 2
    open(f"{out}/patch.diff", "w").write(diff)
    for f in ("zz_seed_demo_test.go", "DEMO.md"):
        if os.path.exists(f"{wt}/{f}"):
            shutil.copy(f"{wt}/{f}", f"{out}/{f}")
    head = sh(["git", "-C", "/repo", "rev-parse", "--short", "HEAD"]).stdout.strip()
    scratch = f"/tmp/vseed-{slug}-{os.getpid()}"
    sh(["git", "-C", "/repo", "worktree", "add", "--detach", scratch, "HEAD"])
    meta = {"property": pid, "slug": slug, "repo_head": head, "confirmed": {}, "checks": {}}
    try:
        demo = os.path.exists(f"{out}/zz_seed_demo_test.go")
        if demo:
            shutil.copy(f"{out}/zz_seed_demo_test.go", f"{scratch}/zz_seed_demo_test.go")
            r = sh(["go", "test", "-vet=off", "-count=1", "-run", "^TestSeedDemo$", "."], cwd=scratch)
            meta["confirmed"]["demo_passes_on_original"] = r.returncode == 0
        r = sh(["git", "apply", f"{out}/patch.diff"], cwd=scratch)
        meta["confirmed"]["patch_applies"] = r.returncode == 0
        r = sh(["go", "build", "./..."], cwd=scratch)
        meta["confirmed"]["builds"] = r.returncode == 0
        if demo:
            r = sh(["go", "test", "-vet=off", "-count=1", "-run", "^TestSeedDemo$", "."], cwd=scratch)
            meta["confirmed"]["demo_fails_with_patch"] = r.returncode != 0
            meta["demo_failure_excerpt"] = (r.stdout + r.stderr)[-1500:]
            os.remove(f"{scratch}/zz_seed_demo_test.go")
        t = time.time()
        r = sh(["go", "test", "-vet=off", "-count=1", "-timeout", "25m", "./..."], cwd=scratch)
        meta["confirmed"]["existing_suite_passes_with_patch"] = r.returncode == 0
        meta["suite_seconds"] = round(time.time() - t)
        if r.returncode != 0:
            meta["suite_failure_excerpt"] = (r.stdout + r.stderr)[-3000:]
        for ck in checks:
            t = time.time()
            r = subprocess.run([f"{V}/bin/vcheck", ck, "--tier", tier], cwd=V, capture_output=True, text=True, timeout=6000,
                               env=dict(env, VERIF_REPO=scratch, VERIF_DIR=V, VERIF_NOEVIDENCE="1", VERIF_EPHEMERAL="1", VERIF_STALL_S="60"))
            sigs = [l.strip()[4:] for l in r.stdout.splitlines() if l.strip().startswith("sig=")]
            meta["checks"][ck] = {"tier": tier, "exit": r.returncode, "caught": r.returncode == 1 and f"VIOLATION property={ck}" in r.stdout,
                                  "signatures": sigs[:6], "seconds": round(time.time() - t), "summary": r.stdout.strip().splitlines()[-1:] }
            if r.returncode not in (0, 1):
                meta["checks"][ck]["stderr"] = r.stderr[-1500:]
    finally:
        sh(["git", "-C", "/repo", "worktree", "remove", "--force", scratch])
        shutil.rmtree(scratch, ignore_errors=True)
    json.dump(meta, open(f"{out}/meta.json", "w"), indent=1)
    print(json.dumps(meta, indent=1)[:3000])
    return 0


if __name__ == "__main__":
    sys.exit(main())
