package absnfs

// C12 — ACCESS decisions follow UNIX permission rules and never over-grant.
// Complete enumeration of modes x kinds x caller relations x masks x read-only
// against an independent decision function.

import (
	"encoding/json"
	"fmt"
	"os"

	"github.com/absfs/absnfs/internal/verif/recfs"
	"github.com/absfs/absnfs/internal/verif/wire"
)

type c12Caller struct {
	Name   string   `json:"name"`
	Squash string   `json:"squash"`
	None   bool     `json:"auth_none,omitempty"`
	UID    uint32   `json:"uid"`
	GID    uint32   `json:"gid"`
	Aux    []uint32 `json:"aux,omitempty"`
}

type c12Case struct {
	Obj    string    `json:"obj"` // /f /d (owner 1000:2000), /g /e (owner 1000:0)
	Mode   uint32    `json:"mode"`
	Caller c12Caller `json:"caller"`
	Mask   uint32    `json:"mask"`
	RO     bool      `json:"ro"`
}

func c12Callers() []c12Caller {
	aux16 := make([]uint32, 16)
	for i := range aux16 {
		aux16[i] = 3001 + uint32(i)
	}
	aux16[15] = 2000
	return []c12Caller{
		{Name: "root", Squash: "none", UID: 0, GID: 0},
		{Name: "owner", Squash: "none", UID: 1000, GID: 3000},
		{Name: "owner+group", Squash: "none", UID: 1000, GID: 2000},
		{Name: "group", Squash: "none", UID: 1001, GID: 2000},
		{Name: "aux0", Squash: "none", UID: 1001, GID: 3000, Aux: []uint32{2000}},
		{Name: "aux15", Squash: "none", UID: 1001, GID: 3000, Aux: aux16},
		{Name: "other", Squash: "none", UID: 1001, GID: 3000, Aux: []uint32{3001, 3002}},
		{Name: "auth_none", Squash: "none", None: true},
		{Name: "gid0-nosquash", Squash: "none", UID: 1001, GID: 0},
		{Name: "root-squashed", Squash: "root", UID: 0, GID: 0},
		{Name: "gid0-squashed", Squash: "root", UID: 1001, GID: 0},
		{Name: "aux-gid0-squashed", Squash: "root", UID: 1001, GID: 3000, Aux: []uint32{0}},
		{Name: "owner-rootsquash", Squash: "root", UID: 1000, GID: 3000},
	}
}

var c12Owners = map[string][2]uint32{"/f": {1000, 2000}, "/d": {1000, 2000}, "/g": {1000, 0}, "/e": {1000, 0}, "/l": {1000, 2000}}

// c12Expect is the independent decision function. It returns the bits that
// must be granted and the bits that may be granted in addition (latitude).
func c12Expect(cs c12Case) (must, may uint32) {
	euid, egid, aux := cs.Caller.UID, cs.Caller.GID, append([]uint32(nil), cs.Caller.Aux...)
	if cs.Caller.None {
		euid, egid, aux = 65534, 65534, nil
	} else if cs.Caller.Squash == "root" {
		if euid == 0 {
			euid, egid = 65534, 65534
		} else if egid == 0 {
			egid = 65534
		}
		for i := range aux {
			if aux[i] == 0 {
				aux[i] = 65534
			}
		}
	}
	own := c12Owners[cs.Obj]
	isDir := cs.Obj == "/d" || cs.Obj == "/e"
	var perm uint32
	switch {
	case euid == 0:
		perm = 7
	case euid == own[0]:
		perm = cs.Mode >> 6 & 7
	default:
		inGroup := egid == own[1]
		for _, g := range aux {
			if g == own[1] {
				inGroup = true
			}
		}
		if inGroup {
			perm = cs.Mode >> 3 & 7
		} else {
			perm = cs.Mode & 7
		}
	}
	const (
		aREAD, aLOOKUP, aMODIFY, aEXTEND, aDELETE, aEXECUTE = 1, 2, 4, 8, 16, 32
	)
	var g uint32
	if perm&4 != 0 {
		g |= aREAD
	}
	if perm&1 != 0 {
		if isDir {
			g |= aLOOKUP
			may |= aEXECUTE // EXECUTE on a directory: RFC 1813 leaves it open
		} else {
			g |= aEXECUTE
		}
	}
	if perm&2 != 0 && !cs.RO {
		g |= aMODIFY | aEXTEND
		if isDir {
			g |= aDELETE
		}
	}
	return g & cs.Mask, may & cs.Mask
}

type c12World struct {
	env     map[string]*vEnv // by squash mode
	handles map[string]map[string]uint64
	ro      map[string]bool
}

func c12Setup() *c12World {
	w := &c12World{env: map[string]*vEnv{}, handles: map[string]map[string]uint64{}, ro: map[string]bool{}}
	for _, sq := range []string{"none", "root"} {
		e, err := vNewEnv(ExportOptions{Squash: sq, AttrCacheTimeout: 1, AttrCacheSize: 64}, func(fs *recfs.FS) {
			vMust(fs.Mkdir("/d", 0o755), "mkdir /d")
			vMust(fs.Mkdir("/e", 0o755), "mkdir /e")
			for _, p := range []string{"/f", "/g"} {
				f, err := fs.Create(p)
				vMust(err, "create "+p)
				f.Write([]byte("data"))
				f.Close()
			}
			vMust(fs.Symlink("f", "/l"), "symlink /l") // ACCESS on a link judges the link's own mode bits
		})
		vMust(err, "new env")
		root, err := e.mnt("/")
		vMust(err, "mnt")
		hs := map[string]uint64{}
		for _, p := range []string{"/f", "/d", "/g", "/e", "/l"} {
			h, err := e.lookupFH(root, p[1:])
			vMust(err, "lookup "+p)
			hs[p] = h
			own := c12Owners[p]
			if sq == "none" && p != "/l" {
				var a wire.Enc
				a.FH(h).Sattr(wire.Sattr{UID: wire.U32p(own[0]), GID: wire.U32p(own[1])}).U32(0)
				res, _, err := e.nfsCall(wire.SETATTR, a.B)
				vMust(err, "setattr owner")
				if res == nil || res.Status != 0 {
					vMust(fmt.Errorf("status %v", res), "setattr owner "+p)
				}
			} else {
				// squash=root: no caller can be uid 0, ownership is planted in the handle's node
				n, _ := e.h.lookupNode(h)
				n.mu.Lock()
				n.attrs.Uid, n.attrs.Gid = own[0], own[1]
				n.mu.Unlock()
				e.nfs.attrCache.Invalidate(p)
			}
		}
		w.env[sq] = e
		w.handles[sq] = hs
	}
	return w
}

func (w *c12World) close() {
	for _, e := range w.env {
		e.close()
	}
}

func (w *c12World) setRO(sq string, ro bool) {
	if w.ro[sq] == ro {
		return
	}
	e := w.env[sq]
	p := *e.nfs.policy.Load()
	p.ReadOnly = ro
	vMust(e.nfs.UpdatePolicyOptions(p), "UpdatePolicyOptions")
	w.ro[sq] = ro
}

var c12LastMode = map[string]uint32{}

// eval runs one case on the world and returns the granted mask.
func (w *c12World) eval(cs c12Case) (uint32, *wire.NFSRes, error) {
	sq := cs.Caller.Squash
	e := w.env[sq]
	key := sq + cs.Obj
	if m, ok := c12LastMode[key]; cs.Obj != "/l" && (!ok || m != cs.Mode) {
		// the mode is set in the backend directly (keeps the SETATTR(mode) path out of this verdict)
		fi, err := e.fs.Inner().Lstat(cs.Obj)
		if err != nil {
			return 0, nil, err
		}
		if err := e.fs.Inner().Chmod(cs.Obj, fi.Mode()&os.ModeType|unixToGoMode(cs.Mode)); err != nil {
			return 0, nil, err
		}
		c12LastMode[key] = cs.Mode
	}
	w.setRO(sq, cs.RO)
	if cs.Caller.None {
		e.cred = vCredNone
	} else {
		e.cred = vCredSys(cs.Caller.UID, cs.Caller.GID, cs.Caller.Aux)
	}
	var a wire.Enc
	a.FH(w.handles[sq][cs.Obj]).U32(cs.Mask)
	res, rp, err := e.nfsCall(wire.ACCESS, a.B)
	if err != nil {
		return 0, res, err
	}
	if res == nil {
		return 0, nil, fmt.Errorf("ACCESS not accepted: denied=%v accept=%d", rp.Denied, rp.AcceptStat)
	}
	if res.Status != 0 {
		return 0, res, fmt.Errorf("ACCESS status %s", wire.StatName(res.Status))
	}
	return res.Access, res, nil
}

var c12BitNames = []string{"READ", "LOOKUP", "MODIFY", "EXTEND", "DELETE", "EXECUTE"}

func c12Bits(m uint32) string {
	s := ""
	for i, n := range c12BitNames {
		if m&(1<<i) != 0 {
			if s != "" {
				s += "+"
			}
			s += n
		}
	}
	if m>>6 != 0 {
		s += fmt.Sprintf("+0x%x", m>>6<<6)
	}
	if s == "" {
		return "none"
	}
	return s
}

func c12Judge(c *vCtx, w *c12World, cs c12Case) {
	c.beat(func() any { return cs })
	got, _, err := w.eval(cs)
	c.res.Evaluations++
	kind := "file"
	if cs.Obj == "/l" {
		kind = "link"
	}
	if cs.Obj == "/d" || cs.Obj == "/e" {
		kind = "dir"
	}
	if err != nil {
		c.violation(fmt.Sprintf("C12|access-failed|kind=%s|caller=%s", kind, cs.Caller.Name), fmt.Sprintf("ACCESS failed for %+v: %v", cs, err), cs)
		return
	}
	must, may := c12Expect(cs)
	if got&^cs.Mask != 0 {
		c.violation(fmt.Sprintf("C12|granted-not-requested|bits=%s|kind=%s", c12Bits(got&^cs.Mask), kind),
			fmt.Sprintf("ACCESS granted %s which were not requested (mask %s) in %+v", c12Bits(got&^cs.Mask), c12Bits(cs.Mask), cs), cs)
	}
	if over := got &^ (must | may); over&cs.Mask != 0 {
		c.violation(fmt.Sprintf("C12|over-grant|bits=%s|kind=%s|caller=%s|ro=%v", c12Bits(over&cs.Mask), kind, cs.Caller.Name, cs.RO),
			fmt.Sprintf("ACCESS over-grants %s: obj=%s mode=%04o caller=%s mask=%s ro=%v granted=%s expected=%s",
				c12Bits(over&cs.Mask), cs.Obj, cs.Mode, cs.Caller.Name, c12Bits(cs.Mask), cs.RO, c12Bits(got), c12Bits(must)), cs)
	}
	if under := must &^ got; under != 0 {
		c.violation(fmt.Sprintf("C12|under-grant|bits=%s|kind=%s|caller=%s|ro=%v", c12Bits(under), kind, cs.Caller.Name, cs.RO),
			fmt.Sprintf("ACCESS withholds %s: obj=%s mode=%04o caller=%s mask=%s ro=%v granted=%s expected=%s",
				c12Bits(under), cs.Obj, cs.Mode, cs.Caller.Name, c12Bits(cs.Mask), cs.RO, c12Bits(got), c12Bits(must)), cs)
	}
	c.outcome(c12Bits(got))
}

func init() {
	vRegister(&vCheck{
		id: "C12", level: "exploration", flavour: "vtime",
		shards: func(string) int { return 8 },
		rule:   "complete product: object mode (quick: all 512 rwx modes + 8 modes with setuid/setgid/sticky; thorough: all 4096) x object {file,dir} (plus a symbolic link with the mode the backend gives it) x owner {1000:2000, 1000:0} x 13 caller relations (uid 0, owner, owner+group, primary group, aux group first/last of 16, other, AUTH_NONE, gid 0 with and without root squash, squashed root, squashed aux gid 0) x all 64 request masks x read-only {off,on}; each is one ACCESS call through HandleCall, compared with an independent decision function. A case is distinct by its full tuple; non-trivial = the requested mask is non-empty.",
		assumptions: []string{
			"object mode is planted in the backend directly; ownership is set through SETATTR as uid 0 (squash none) or planted in the handle's node (squash root, where no caller can be uid 0)",
			"EXECUTE on a directory with x permission is accepted either way (RFC 1813 leaves it open)",
			"attribute cache TTL 1ns with the virtual clock advanced 1s per request, so every decision reads the backend mode",
		},
		run: func(c *vCtx) {
			w := c12Setup()
			defer w.close()
			var modes []uint32
			if c.thorough() {
				for m := uint32(0); m < 4096; m++ {
					modes = append(modes, m)
				}
			} else {
				for m := uint32(0); m < 512; m++ {
					modes = append(modes, m)
				}
				modes = append(modes, 0o4755, 0o2755, 0o1777, 0o7777, 0o4000, 0o2070, 0o1007, 0o7000)
			}
			callers := c12Callers()
			idx := 0
			for _, ro := range []bool{false, true} {
				for _, obj := range []string{"/f", "/d", "/g", "/e"} {
					for _, m := range modes {
						idx++
						if !c.mine(idx) {
							continue
						}
						for _, cl := range callers {
							for mask := uint32(0); mask < 64; mask++ {
								cs := c12Case{Obj: obj, Mode: m, Caller: cl, Mask: mask, RO: ro}
								c12Judge(c, w, cs)
								if mask != 0 {
									c.res.Distinct++
								}
								if mask == 0x3f && cl.Name == "group" {
									c.sample(cs)
								}
							}
						}
					}
				}
			}
			// the symbolic link: its own mode as the backend reports it
			if fi, err := w.env["none"].fs.Inner().Lstat("/l"); err == nil {
				lm := uint32(fi.Mode().Perm())
				for _, ro := range []bool{false, true} {
					idx++
					if !c.mine(idx) {
						continue
					}
					for _, cl := range callers {
						for mask := uint32(0); mask < 64; mask++ {
							c12Judge(c, w, c12Case{Obj: "/l", Mode: lm, Caller: cl, Mask: mask, RO: ro})
							if mask != 0 {
								c.res.Distinct++
							}
						}
					}
				}
			}
			c.res.Bounds["modes"] = len(modes)
			c.res.Bounds["callers"] = len(callers)
			c.res.Bounds["masks"] = 64
		},
		replay: func(c *vCtx, raw json.RawMessage) {
			var cs c12Case
			if err := json.Unmarshal(raw, &cs); err != nil {
				vMust(err, "replay case")
			}
			w := c12Setup()
			defer w.close()
			c12Judge(c, w, cs)
		},
	})
}
