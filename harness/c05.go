package absnfs

// C05 — handles are live when issued, one per path, table bounded.
// C06 — a handle value never silently refers to a different object.
// Explicit-state search over allocation histories at two seams: the
// FileHandleMap itself and the NFS procedures that issue handles.

import (
	"reflect"
	"unsafe"
	"encoding/json"
	"fmt"
	"sort"
	"strings"

	"github.com/absfs/absnfs/internal/verif/recfs"
	"github.com/absfs/absnfs/internal/verif/wire"
)

// ------------------------------------------------------------ seam (a)

type fhOp struct {
	Kind string `json:"kind"` // alloc release releaseall
	Path string `json:"path,omitempty"`
	ID   uint64 `json:"id,omitempty"`
}

type fhState struct {
	fm        *FileHandleMap
	max       int
	prefill   int
	first     map[uint64]string // ghost: first path each id was issued for
	universe  []string
	prop      string
	c         *vCtx
	maxIssued uint64
}

type fhCase struct {
	Seam    string `json:"seam"`
	Max     int    `json:"max"`
	Prefill int    `json:"prefill"`
	Hist    []fhOp `json:"hist"`
}

func fhNew(max, prefill int, prop string, c *vCtx) *fhState {
	s := &fhState{max: max, prefill: prefill, first: map[uint64]string{}, prop: prop, c: c}
	s.fm = &FileHandleMap{handles: map[uint64]absfsFile{}, pathHandles: map[string]uint64{}, nextHandle: 1, freeHandles: NewUint64MinHeap(), maxHandles: max}
	for i := 0; i < prefill; i++ {
		p := fmt.Sprintf("/pre%02d", i)
		h := s.fm.Allocate(&NFSNode{path: p})
		s.first[h] = p
		if h > s.maxIssued {
			s.maxIssued = h
		}
	}
	if prefill > 0 {
		s.universe = []string{"/pre00", fmt.Sprintf("/pre%02d", prefill/2), fmt.Sprintf("/pre%02d", prefill-1), "/n1", "/n2", "/n3"}
	} else {
		for i := 0; i < max+2; i++ {
			s.universe = append(s.universe, fmt.Sprintf("/p%d", i))
		}
	}
	return s
}

func (s *fhState) freeSet() map[uint64]bool {
	m := map[uint64]bool{}
	for _, v := range *s.fm.freeHandles {
		m[v] = true
	}
	return m
}

func (s *fhState) live() map[uint64]string {
	m := map[uint64]string{}
	for id := uint64(0); id <= s.maxIssued+2; id++ {
		if f, ok := s.fm.Get(id); ok {
			if n, ok := f.(*NFSNode); ok {
				m[id] = n.path
			} else {
				m[id] = "?"
			}
		}
	}
	return m
}

func (s *fhState) key() string {
	var sb strings.Builder
	ids := make([]uint64, 0, len(s.fm.handles))
	for id := range s.fm.handles {
		ids = append(ids, id)
	}
	sort.Slice(ids, func(i, j int) bool { return ids[i] < ids[j] })
	for _, id := range ids {
		p := "?"
		if n, ok := s.fm.handles[id].(*NFSNode); ok {
			p = n.path
		}
		fmt.Fprintf(&sb, "%d=%s,", id, p)
	}
	sb.WriteString("|")
	ps := vSortedKeys(s.fm.pathHandles)
	for _, p := range ps {
		fmt.Fprintf(&sb, "%s>%d,", p, s.fm.pathHandles[p])
	}
	sb.WriteString("|")
	fr := append([]uint64(nil), *s.fm.freeHandles...)
	sort.Slice(fr, func(i, j int) bool { return fr[i] < fr[j] })
	fmt.Fprintf(&sb, "%v|%d", fr, s.fm.nextHandle)
	if s.prop == "C06" {
		fids := make([]uint64, 0, len(s.first))
		for id := range s.first {
			fids = append(fids, id)
		}
		sort.Slice(fids, func(i, j int) bool { return fids[i] < fids[j] })
		for _, id := range fids {
			fmt.Fprintf(&sb, "|%d:%s", id, s.first[id])
		}
	}
	return sb.String()
}

func (s *fhState) enabled() []fhOp {
	var ops []fhOp
	for _, p := range s.universe {
		ops = append(ops, fhOp{Kind: "alloc", Path: p})
	}
	lv := s.live()
	var ids []uint64
	for id := range lv {
		ids = append(ids, id)
	}
	sort.Slice(ids, func(i, j int) bool { return ids[i] < ids[j] })
	if len(ids) > 4 {
		ids = []uint64{ids[0], ids[1], ids[len(ids)/2], ids[len(ids)-1]}
	}
	for _, id := range ids {
		ops = append(ops, fhOp{Kind: "release", ID: id})
	}
	// Release of a value that is not live (already released or evicted, or never issued) is a no-op
	for id := uint64(1); id <= s.maxIssued; id++ {
		if _, isLive := lv[id]; !isLive {
			ops = append(ops, fhOp{Kind: "release", ID: id})
			break
		}
	}
	ops = append(ops, fhOp{Kind: "release", ID: s.maxIssued + 1})
	ops = append(ops, fhOp{Kind: "releaseall"})
	return ops
}

func (s *fhState) apply(op fhOp, check bool, hist []fhOp) {
	cs := func() fhCase {
		h := append(append([]fhOp(nil), hist...), op)
		return fhCase{Seam: "map", Max: s.max, Prefill: s.prefill, Hist: h}
	}
	switch op.Kind {
	case "alloc":
		before := s.live()
		var prevID uint64
		var hadLive bool
		for id, p := range before {
			if p == op.Path {
				prevID, hadLive = id, true
			}
		}
		free := s.freeSet()
		nextBefore := s.fm.nextHandle
		h := s.fm.Allocate(&NFSNode{path: op.Path})
		if h > s.maxIssued {
			s.maxIssued = h
		}
		if check && s.prop == "C05" {
			f, ok := s.fm.Get(h)
			n, isNode := f.(*NFSNode)
			if !ok || !isNode || n.path != op.Path {
				how := "fresh-id"
				if hadLive && h == prevID {
					how = "dedup-hit"
				} else if h < nextBefore {
					how = "reused-id"
				}
				got := "nothing"
				if ok && isNode {
					got = n.path
				}
				s.c.violation("C05|issued-handle-not-live|seam=map|how="+how,
					fmt.Sprintf("Allocate(%s)=%d with max=%d, but Get(%d) resolves to %s immediately afterwards (id came from: %s)", op.Path, h, s.max, h, got, how), cs())
			}
			if hadLive && h != prevID {
				s.c.violation("C05|reissue-different-handle|seam=map",
					fmt.Sprintf("path %s had live handle %d but Allocate returned %d", op.Path, prevID, h), cs())
			}
		}
		if check && s.prop == "C06" {
			if fp, ok := s.first[h]; ok && fp != op.Path && before[h] != op.Path {
				via := "other"
				if free[h] {
					via = "free-list"
				} else if _, wasLive := before[h]; wasLive {
					via = "live-id-overwritten"
				} else if s.fm.nextHandle <= nextBefore || h < nextBefore {
					via = "counter-reset"
				}
				s.c.violation("C06|handle-value-reissued-for-different-path|seam=map|via="+via,
					fmt.Sprintf("handle value %d was first issued for %s and is now issued for %s (via %s)", h, fp, op.Path, via), cs())
			}
		}
		if _, ok := s.first[h]; !ok {
			s.first[h] = op.Path
		}
	case "release":
		s.fm.Release(op.ID)
	case "releaseall":
		s.fm.ReleaseAll()
	}
	if check && s.prop == "C05" {
		if n := s.fm.Count(); n > s.max {
			s.c.violation("C05|table-exceeds-max|seam=map", fmt.Sprintf("Count()=%d > max=%d after %+v", n, s.max, op), cs())
		}
		lv := s.live()
		if len(lv) != s.fm.Count() {
			s.c.violation("C05|count-disagrees-with-get|seam=map", fmt.Sprintf("Count()=%d but %d ids resolve", s.fm.Count(), len(lv)), cs())
		}
		// the path index and the table name the same objects
		for p, h := range s.fm.pathHandles {
			if n, ok := s.fm.handles[h].(*NFSNode); !ok || n.path != p {
				got := "nothing"
				if ok {
					got = n.path
				}
				s.c.violation("C05|path-index-names-other-object|seam=map", fmt.Sprintf("the table records handle %d for %s, but handle %d resolves to %s", h, p, h, got), cs())
			}
		}
		seen := map[string]uint64{}
		for id, p := range lv {
			if o, dup := seen[p]; dup {
				s.c.violation("C05|two-live-handles-one-path|seam=map", fmt.Sprintf("path %s has live handles %d and %d", p, o, id), cs())
			}
			seen[p] = id
		}
	}
	if check && s.prop == "C06" {
		// every live id must still name the path it was first issued for
		for id, p := range s.live() {
			if fp, ok := s.first[id]; ok && fp != p {
				// reported at allocation time with its cause; counted here
				s.c.count("c06_live_ids_naming_other_path", 1)
			}
		}
	}
}

func fhExploreMap(c *vCtx, prop string) {
	type cfg struct{ max, prefill, depth int }
	var cfgs []cfg
	dSmall, dBig := 7, 5
	if c.thorough() {
		dSmall, dBig = 9, 6
	}
	for _, m := range []int{1, 2, 3, 4} {
		cfgs = append(cfgs, cfg{m, 0, dSmall})
	}
	for _, m := range []int{10, 11, 20} {
		cfgs = append(cfgs, cfg{m, m, dBig})
		cfgs = append(cfgs, cfg{m, m - 1, dBig})
	}
	for i, cf := range cfgs {
		if !c.mine(i) {
			continue
		}
		eng := &vHist[*fhState, fhOp]{
			New:     func() *fhState { return fhNew(cf.max, cf.prefill, prop, c) },
			Apply:   func(s *fhState, op fhOp, check bool, hist []fhOp) { s.apply(op, check, hist) },
			Enabled: func(s *fhState) []fhOp { return s.enabled() },
			Key:     func(s *fhState) string { return s.key() },
		}
		eng.All = true
		st, tr, _ := eng.run(c, cf.depth)
		c.res.States += st
		c.res.Transitions += tr
		c.res.Traces += tr
		c.sample(map[string]any{"seam": "map", "max": cf.max, "prefilled": cf.prefill, "depth": cf.depth, "states": st, "transitions": tr})
	}
}

// ------------------------------------------------------------ seam (b): NFS

type nhOp struct {
	Kind string `json:"kind"` // mnt lookup create mkdir symlink readdirplus unexport remove
	Dir  string `json:"dir,omitempty"`
	Name string `json:"name,omitempty"`
}

type nhIssued struct {
	Path   string
	Fileid uint64
	Gen    int // generation of the object at Path when the value was first issued
}

type nhState struct {
	e      *vEnv
	max    int
	prop   string
	c      *vCtx
	known  map[string]uint64   // model client: path -> latest handle issued for it
	first  map[uint64]nhIssued // ghost: first path / fileid each handle value was issued for
	cause  map[uint64]string   // ghost: how a handle value came to be reissued for another path
	gen    map[string]int      // ghost: how many objects have been created or removed at a path
	dirs   []string
	serial int
}

type nhCase struct {
	Seam string `json:"seam"`
	Max  int    `json:"max"`
	Hist []nhOp `json:"hist"`
}

func nhNew(max int, prop string, c *vCtx) *nhState {
	e, err := vNewEnv(ExportOptions{AttrCacheTimeout: 1, AttrCacheSize: 64}, func(fs *recfs.FS) {
		vMust(fs.Mkdir("/d", 0o755), "mkdir")
		for _, p := range []string{"/a", "/b", "/d/x", "/d/y", "/d/z"} {
			f, err := fs.Create(p)
			vMust(err, "create")
			f.Write([]byte(p))
			f.Close()
		}
	})
	vMust(err, "env")
	e.nfs.fileMap.maxHandles = max
	return &nhState{e: e, max: max, prop: prop, c: c, known: map[string]uint64{}, first: map[uint64]nhIssued{}, cause: map[uint64]string{}, gen: map[string]int{}}
}

func (s *nhState) key() string {
	fm := s.e.nfs.fileMap
	var sb strings.Builder
	ids := make([]uint64, 0, len(fm.handles))
	for id := range fm.handles {
		ids = append(ids, id)
	}
	sort.Slice(ids, func(i, j int) bool { return ids[i] < ids[j] })
	for _, id := range ids {
		p := "?"
		if n, ok := fm.handles[id].(*NFSNode); ok {
			p = n.path
		}
		fmt.Fprintf(&sb, "%d=%s,", id, p)
	}
	fr := append([]uint64(nil), *fm.freeHandles...)
	sort.Slice(fr, func(i, j int) bool { return fr[i] < fr[j] })
	fmt.Fprintf(&sb, "|%v|%d|", fr, fm.nextHandle)
	for _, p := range vSortedKeys(s.known) {
		fmt.Fprintf(&sb, "%s>%d,", p, s.known[p])
	}
	if s.prop == "C06" {
		fids := make([]uint64, 0, len(s.first))
		for id := range s.first {
			fids = append(fids, id)
		}
		sort.Slice(fids, func(i, j int) bool { return fids[i] < fids[j] })
		for _, id := range fids {
			fmt.Fprintf(&sb, "|%d:%s:%d", id, s.first[id].Path, s.first[id].Gen)
		}
		for _, p := range vSortedKeys(s.gen) {
			fmt.Fprintf(&sb, "|g%s=%d", p, s.gen[p])
		}
	}
	sb.WriteString("|" + s.e.fs.DumpString())
	return sb.String()
}

func (s *nhState) enabled() []nhOp {
	ops := []nhOp{{Kind: "mnt"}}
	for _, d := range []string{"/", "/d"} {
		hd, ok := s.known[d]
		if !ok {
			continue
		}
		if s.prop == "C05" {
			// C05 drives only handles that are live for the path the client holds them for
			f, live := s.e.nfs.fileMap.handles[hd]
			if n, isNode := f.(*NFSNode); !live || !isNode || n.path != d {
				continue
			}
		}
		names := []string{"a", "b", "d"}
		if d == "/d" {
			names = []string{"x", "y"}
		}
		for _, n := range names {
			ops = append(ops, nhOp{Kind: "lookup", Dir: d, Name: n})
		}
		ops = append(ops, nhOp{Kind: "readdirplus", Dir: d})
		if d == "/" {
			ops = append(ops, nhOp{Kind: "create", Dir: d, Name: "n"}, nhOp{Kind: "mkdir", Dir: d, Name: "m"}, nhOp{Kind: "symlink", Dir: d, Name: "s"})
		}
	}
	if s.prop == "C06" {
		ops = append(ops, nhOp{Kind: "unexport"})
		if _, ok := s.known["/"]; ok {
			// a name reused for another object: file n removed, directory n made (and back)
			ops = append(ops, nhOp{Kind: "remove", Dir: "/", Name: "n"}, nhOp{Kind: "mkdir", Dir: "/", Name: "n"})
		}
	}
	return ops
}

func pjoin(d, n string) string {
	if d == "/" {
		return "/" + n
	}
	return d + "/" + n
}

type nhIssue struct {
	path   string
	h      uint64
	fileid uint64
}

func (s *nhState) apply(op nhOp, check bool, hist []nhOp) {
	cs := func() nhCase {
		return nhCase{Seam: "nfs", Max: s.max, Hist: append(append([]nhOp(nil), hist...), op)}
	}
	fm := s.e.nfs.fileMap
	liveBefore := map[string]uint64{}
	for id, f := range fm.handles {
		if n, ok := f.(*NFSNode); ok {
			liveBefore[n.path] = id
		}
	}
	nextBefore := fm.nextHandle
	freeBefore := map[uint64]bool{}
	for _, v := range *fm.freeHandles {
		freeBefore[v] = true
	}
	var issued []nhIssue
	// ground truth: which directory does the handle the client uses name right now?
	actualDir := op.Dir
	if op.Dir != "" {
		if f, ok := fm.handles[s.known[op.Dir]]; ok {
			if n, ok := f.(*NFSNode); ok {
				actualDir = n.path
			}
		}
	}
	fail := func(what string, err error) {
		if check {
			s.c.violation(s.prop+"|harness-op-failed|op="+op.Kind, fmt.Sprintf("%s: %v", what, err), cs())
		}
	}
	switch op.Kind {
	case "mnt":
		h, err := s.e.mnt("/")
		if err != nil {
			fail("MNT", err)
			return
		}
		issued = append(issued, nhIssue{"/", h, 0})
	case "lookup":
		res, err := s.e.lookup(s.known[op.Dir], op.Name)
		if err != nil {
			fail("LOOKUP", err)
			return
		}
		if res.Status == 0 {
			h, _ := wire.FHVal(res.FH)
			var fid uint64
			if res.Attr != nil {
				fid = res.Attr.Fileid
			}
			issued = append(issued, nhIssue{pjoin(actualDir, op.Name), h, fid})
		}
	case "remove":
		var a wire.Enc
		a.FH(s.known[op.Dir]).Str(op.Name)
		res, _, err := s.e.nfsCall(wire.REMOVE, a.B)
		if err != nil || res == nil {
			fail("REMOVE", fmt.Errorf("%v (res=%v)", err, res))
			return
		}
		if res.Status == 0 {
			s.gen[pjoin(actualDir, op.Name)]++
		}
	case "create", "mkdir", "symlink":
		_, existedErr := s.e.fs.Inner().Lstat(pjoin(actualDir, op.Name))
		var a wire.Enc
		a.FH(s.known[op.Dir]).Str(op.Name)
		proc := uint32(wire.CREATE)
		switch op.Kind {
		case "create":
			a.U32(0).Sattr(wire.Sattr{})
		case "mkdir":
			proc = wire.MKDIR
			a.Sattr(wire.Sattr{})
		case "symlink":
			proc = wire.SYMLINK
			a.Sattr(wire.Sattr{}).Str("a")
		}
		res, _, err := s.e.nfsCall(proc, a.B)
		if err != nil || res == nil {
			fail(op.Kind, fmt.Errorf("%v (res=%v)", err, res))
			return
		}
		if res.Status == 0 && existedErr != nil {
			s.gen[pjoin(actualDir, op.Name)]++ // a new object now lives at this path
		}
		if res.Status == 0 && res.FH != nil {
			h, _ := wire.FHVal(res.FH)
			var fid uint64
			if res.Attr != nil {
				fid = res.Attr.Fileid
			}
			issued = append(issued, nhIssue{pjoin(actualDir, op.Name), h, fid})
		}
	case "readdirplus":
		var a wire.Enc
		a.FH(s.known[op.Dir]).U64(0).Raw(make([]byte, 8)).U32(8192).U32(32768)
		res, _, err := s.e.nfsCall(wire.READDIRPLUS, a.B)
		if err != nil || res == nil {
			fail("READDIRPLUS", fmt.Errorf("%v", err))
			return
		}
		if res.Status == 0 {
			for _, en := range res.Entries {
				if en.FH != nil {
					h, _ := wire.FHVal(en.FH)
					var fid uint64
					if en.Attr != nil {
						fid = en.Attr.Fileid
					}
					issued = append(issued, nhIssue{pjoin(actualDir, en.Name), h, fid})
				}
			}
		}
	case "unexport":
		s.e.nfs.Unexport()
		// ... and exported again: Export() clears the closed mark before it starts a listener;
		// this harness drives HandleCall directly, so it does the same without a listener
		// (the real Export / Unexport / Export path over TCP is C28's)
		s.e.nfs.policyRWMu.Lock()
		if f := reflect.ValueOf(s.e.nfs).Elem().FieldByName("closed"); f.IsValid() && f.Kind() == reflect.Bool {
			// by name, so that a tree without the mark (before that fix) still builds
			*(*bool)(unsafe.Pointer(f.UnsafeAddr())) = false
		}
		s.e.nfs.policyRWMu.Unlock()
	}
	for _, is := range issued {
		s.known[is.path] = is.h
	}
	// sequential pass over the handles of this reply: detect a value reissued for another
	// path (also within one reply), remember its cause, then register first-issue ghosts
	type reissue struct {
		is  nhIssue
		fp  string
		via string
	}
	var reissues []reissue
	for _, is := range issued {
		if fp, ok := s.first[is.h]; ok && fp.Path != is.path && liveBefore[is.path] != is.h {
			via := "other"
			if fm.nextHandle < nextBefore {
				via = "counter-reset"
			} else if freeBefore[is.h] || is.h < nextBefore || is.h < fm.nextHandle {
				via = "free-list"
			}
			if s.cause[is.h] == "" {
				s.cause[is.h] = via
			}
			reissues = append(reissues, reissue{is, fp.Path, via})
		}
		if _, ok := s.first[is.h]; !ok {
			s.first[is.h] = nhIssued{is.path, is.fileid, s.gen[is.path]}
		}
	}
	if !check {
		return
	}
	s.c.res.Evaluations++
	if s.prop == "C05" {
		// one handle per path: a path live before must be reissued with the same value
		for _, is := range issued {
			if h0, ok := liveBefore[is.path]; ok && h0 != is.h {
				// h0 must have been live at the moment of the reissue: only certain when this
				// reply made a single allocation (an earlier entry may have evicted h0)
				if len(issued) == 1 {
					s.c.violation("C05|reissue-different-handle|seam=nfs|proc="+op.Kind,
						fmt.Sprintf("%s had live handle %d, %s returned %d", is.path, h0, op.Kind, is.h), cs())
				}
			}
		}
		// live when issued: the handles of this reply (the last max of them if the
		// reply carries more than the table can hold) resolve to their objects
		chk := issued
		if len(chk) > s.max {
			chk = nil // no bounded table can keep them all live; not judged
			s.c.count("replies_with_more_handles_than_max_not_judged", 1)
		}
		many := "single"
		if len(issued) > 1 {
			many = "multi"
		}
		for _, is := range chk {
			from := s.e.fs.LogLen()
			var a wire.Enc
			a.FH(is.h)
			res, _, err := s.e.nfsCall(wire.GETATTR, a.B)
			how := "fresh-id"
			if h0, ok := liveBefore[is.path]; ok && h0 == is.h {
				how = "dedup-hit"
			} else if is.h < nextBefore {
				how = "reused-id"
			}
			n := len(issued)
			if err != nil || res == nil {
				s.c.violation("C05|harness-op-failed|op=getattr", fmt.Sprintf("GETATTR: %v", err), cs())
				continue
			}
			if res.Status != 0 {
				sig := fmt.Sprintf("C05|issued-handle-not-live|seam=nfs|reply=%s|how=%s", many, how)
				if many == "multi" {
					sig = "C05|issued-handle-not-live|seam=nfs|reply=multi"
				}
				s.c.violation(sig,
					fmt.Sprintf("%s returned handle %d for %s (max=%d, %d handles in the reply) but an immediately following GETATTR replies %s", op.Kind, is.h, is.path, s.max, n, wire.StatName(res.Status)), cs())
				continue
			}
			for _, lo := range s.e.fs.Snapshot()[from:] {
				if lo.Path != is.path {
					s.c.violation(fmt.Sprintf("C05|issued-handle-names-other-object|seam=nfs|reply=%s", many),
						fmt.Sprintf("%s returned handle %d for %s but GETATTR on it reached %s in the backend", op.Kind, is.h, is.path, lo.Path), cs())
					break
				}
			}
		}
		if n := fm.Count(); n > s.max {
			s.c.violation("C05|table-exceeds-max|seam=nfs", fmt.Sprintf("Count()=%d > max=%d after %+v", n, s.max, op), cs())
		}
	}
	if s.prop == "C06" {
		for _, r := range reissues {
			s.c.violation("C06|handle-value-reissued-for-different-path|seam=nfs|via="+r.via,
				fmt.Sprintf("handle value %d was first given out for %s; %s now returns it for %s", r.is.h, r.fp, op.Kind, r.is.path), cs())
		}
	}
	if s.prop == "C06" {
		// observation: every handle value ever issued is either STALE or still serves its first path
		ids := make([]uint64, 0, len(s.first))
		for id := range s.first {
			ids = append(ids, id)
		}
		sort.Slice(ids, func(i, j int) bool { return ids[i] < ids[j] })
		for _, id := range ids {
			fp := s.first[id]
			from := s.e.fs.LogLen()
			var a wire.Enc
			a.FH(id)
			res, _, err := s.e.nfsCall(wire.GETATTR, a.B)
			if err != nil || res == nil {
				s.c.violation("C06|harness-op-failed|op=getattr", fmt.Sprintf("GETATTR: %v", err), cs())
				continue
			}
			if res.Status == 70 { // STALE
				continue
			}
			served := ""
			for _, lo := range s.e.fs.Snapshot()[from:] {
				if lo.Path != fp.Path {
					served = lo.Path
				}
			}
			if served == "" && res.Status == 0 && s.gen[fp.Path] != fp.Gen {
				// same path, but the object the value was issued for is gone and another one lives there
				s.c.violation("C06|old-handle-served-against-replaced-object|seam=nfs|via=path-reuse",
					fmt.Sprintf("handle value %d was given out for the object then at %s; that object was removed and another created at the same path, and a GETATTR with the old value is answered OK with the new object's attributes (type %d)", id, fp.Path, res.Attr.Type), cs())
			}
			if served != "" {
				cause := s.cause[id]
				if cause == "" {
					cause = "unknown"
				}
				s.c.violation("C06|old-handle-served-against-other-path|seam=nfs|cause="+cause,
					fmt.Sprintf("handle value %d was given out for %s; a later GETATTR with it is served against %s (status %s)", id, fp.Path, served, wire.StatName(res.Status)), cs())
			}
		}
	}
}

func nhExplore(c *vCtx, prop string) {
	depth := 3
	maxes := []int{1, 2, 3, 4}
	if c.thorough() {
		depth = 4
		maxes = []int{1, 2, 3, 4, 6}
	}
	type nhCfg struct{ max, depth int }
	var cfgs []nhCfg
	for _, m := range maxes {
		cfgs = append(cfgs, nhCfg{m, depth})
	}
	if prop == "C06" && !c.thorough() {
		// a name reused for another object needs four requests (MNT, CREATE n, REMOVE n, MKDIR n)
		cfgs = append(cfgs, nhCfg{8, 4})
	}
	for i, cf := range cfgs {
		m, depth := cf.max, cf.depth
		if !c.mine(i + 100) {
			continue
		}
		eng := &vHist[*nhState, nhOp]{
			New:     func() *nhState { return nhNew(m, prop, c) },
			Apply:   func(s *nhState, op nhOp, check bool, hist []nhOp) { s.apply(op, check, hist) },
			Enabled: func(s *nhState) []nhOp { return s.enabled() },
			Key:     func(s *nhState) string { return s.key() },
			Close:   func(s *nhState) { s.e.close() },
		}
		eng.All = true
		st, tr, _ := eng.run(c, depth)
		c.res.States += st
		c.res.Transitions += tr
		c.res.Traces += tr
		c.sample(map[string]any{"seam": "nfs", "max": m, "depth": depth, "states": st, "transitions": tr})
	}
}

func fhReplay(c *vCtx, prop string, raw json.RawMessage) {
	var probe struct {
		Seam string `json:"seam"`
	}
	json.Unmarshal(raw, &probe)
	if probe.Seam == "map" {
		var cs fhCase
		vMust(json.Unmarshal(raw, &cs), "case")
		s := fhNew(cs.Max, cs.Prefill, prop, c)
		for i, op := range cs.Hist {
			s.apply(op, i == len(cs.Hist)-1, cs.Hist[:i])
		}
		return
	}
	var cs nhCase
	vMust(json.Unmarshal(raw, &cs), "case")
	s := nhNew(cs.Max, prop, c)
	defer s.e.close()
	for i, op := range cs.Hist {
		s.apply(op, i == len(cs.Hist)-1, cs.Hist[:i])
	}
}

func init() {
	mk := func(id, rule string, assumptions []string) {
		vRegister(&vCheck{
			id: id, level: "model_checking", flavour: "vtime",
			shards:      func(string) int { return 12 },
			rule:        rule,
			assumptions: assumptions,
			run: func(c *vCtx) {
				fhExploreMap(c, id)
				nhExplore(c, id)
				c.res.Bounds["map_seam"] = "max in {1,2,3,4} from empty table, depth 6 (thorough 8); max in {10,11,20} from a table prefilled to max and max-1, depth 4 (thorough 5)"
				c.res.Bounds["nfs_seam"] = "maxHandles in {1,2,3,4} (thorough +6), depth 3 (thorough 4) over MNT/LOOKUP/CREATE/MKDIR/SYMLINK/READDIRPLUS (C06: + Unexport) on a 7-object tree"
			},
			replay: func(c *vCtx, raw json.RawMessage) { fhReplay(c, id, raw) },
		})
	}
	mk("C05", "breadth-first search over allocation histories on the real FileHandleMap (ops: Allocate of each path of a small universe, Release of live ids, ReleaseAll) and over NFS request histories that issue handles, deduplicated on the table's own state (handles, path index, free heap, counter). After every transition: the issued handle resolves to its path, a live path is reissued with the same value, Count() <= max, no path has two live handles; at the NFS seam each handle of a reply is probed by a real GETATTR whose backend path is read from the recfs log.",
		[]string{"a reply carrying more handles than the table can hold is explored but its handles are not required to be live (no bounded table can satisfy that)",
			"dedup key = implementation state; two histories with the same table state have the same futures because Allocate/Release/Get read nothing else"})
	mk("C06", "same search as C05 with ghost state 'first path each handle value was issued for' (part of the dedup key); after every transition every handle value ever issued is probed with GETATTR and must be STALE or be served against its first path (backend paths read from the recfs log); Unexport is part of the alphabet.",
		[]string{"identity of the object served is read from the backend paths the request touches (attribute cache TTL 1ns, virtual clock advanced 1s per request)"})
}
