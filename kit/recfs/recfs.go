// Package recfs is the recording backend of the verification harness: an
// absfs.SymlinkFileSystem wrapper around a fresh memfs that logs every call,
// guards memfs against ranges it cannot handle, normalises the memfs
// deviations from POSIX that the properties do not care about, serialises
// calls (so the backend is thread-safe as the properties assume) and can
// inject faults / announce calls to a scheduler through a hook.
package recfs

import (
	"fmt"
	"io/fs"
	"os"
	"path"
	"sort"
	"strings"
	"sync"
	"syscall"
	"time"

	"github.com/absfs/absfs"
	"github.com/absfs/memfs"
)

// Op is one logged backend call.
type Op struct {
	Name  string      `json:"op"`
	Path  string      `json:"path,omitempty"`
	Path2 string      `json:"path2,omitempty"`
	Flag  int         `json:"flag,omitempty"`
	Perm  os.FileMode `json:"perm,omitempty"`
	Off   int64       `json:"off,omitempty"`
	Len   int64       `json:"len,omitempty"`
	UID   int         `json:"uid,omitempty"`
	GID   int         `json:"gid,omitempty"`
	Data  []byte      `json:"data,omitempty"`
	Err   string      `json:"err,omitempty"`
	Mut   bool        `json:"mut,omitempty"` // a modifying operation (C08's list)
	Tag   any         `json:"tag,omitempty"` // set by Hook (e.g. policy pointer in force)
}

func (o Op) String() string {
	s := o.Name + "(" + o.Path
	if o.Path2 != "" {
		s += "," + o.Path2
	}
	if o.Name == "OpenFile" {
		s += fmt.Sprintf(",flag=%#x", o.Flag)
	}
	if o.Name == "WriteAt" || o.Name == "ReadAt" || o.Name == "Truncate" || o.Name == "FTruncate" {
		s += fmt.Sprintf(",off=%d,len=%d", o.Off, o.Len)
	}
	s += ")"
	if o.Err != "" {
		s += "=" + o.Err
	}
	return s
}

// FS is the recording filesystem.
type FS struct {
	mu      sync.Mutex
	inner   absfs.SymlinkFileSystem
	Log     []Op
	NoLog   bool  // stop logging (log kept)
	MaxSize int64 // range guard; 0 = 1 MiB
	// Hook, if set, is called before every call (without the lock held).
	// A non-nil error is returned to the caller instead of performing the call.
	Hook func(op *Op) error
	// Done, if set, is called after every call.
	Done func(op *Op)
	// KeepData makes WriteAt/Write log their payload (crash enumeration).
	KeepData bool
}

// New returns a recording wrapper around a fresh memfs.
func New() *FS {
	m, err := memfs.NewFS()
	if err != nil {
		panic(err)
	}
	return &FS{inner: m}
}

func (r *FS) Inner() absfs.SymlinkFileSystem { return r.inner }

func (r *FS) maxSize() int64 {
	if r.MaxSize > 0 {
		return r.MaxSize
	}
	return 1 << 20
}

// Reset forgets the log.
func (r *FS) Reset() {
	r.mu.Lock()
	r.Log = nil
	r.mu.Unlock()
}

// Snapshot returns a copy of the log.
func (r *FS) Snapshot() []Op {
	r.mu.Lock()
	defer r.mu.Unlock()
	return append([]Op(nil), r.Log...)
}

// LogLen returns the current log length.
func (r *FS) LogLen() int {
	r.mu.Lock()
	defer r.mu.Unlock()
	return len(r.Log)
}

// Mutations returns the modifying operations logged from index from on.
func (r *FS) Mutations(from int) []Op {
	r.mu.Lock()
	defer r.mu.Unlock()
	var out []Op
	for _, o := range r.Log[from:] {
		if o.Mut {
			out = append(out, o)
		}
	}
	return out
}

func errStr(err error) string {
	if err == nil {
		return ""
	}
	return err.Error()
}

// do runs one call: hook, lock, perform, log.
func (r *FS) do(op Op, f func() error) error {
	if r.Hook != nil {
		if err := r.Hook(&op); err != nil {
			op.Err = "injected:" + err.Error()
			r.mu.Lock()
			if !r.NoLog {
				r.Log = append(r.Log, op)
			}
			r.mu.Unlock()
			if r.Done != nil {
				r.Done(&op)
			}
			return err
		}
	}
	r.mu.Lock()
	err := f()
	op.Err = errStr(err)
	if !r.NoLog {
		r.Log = append(r.Log, op)
	}
	r.mu.Unlock()
	if r.Done != nil {
		r.Done(&op)
	}
	return err
}

func writeFlag(flag int) bool {
	return flag&absfs.O_ACCESS != os.O_RDONLY || flag&(os.O_CREATE|os.O_TRUNC|os.O_APPEND) != 0
}

// ---- absfs.Filer

func (r *FS) OpenFile(name string, flag int, perm os.FileMode) (absfs.File, error) {
	var f absfs.File
	err := r.do(Op{Name: "OpenFile", Path: name, Flag: flag, Perm: perm, Mut: writeFlag(flag)}, func() error {
		var e error
		f, e = r.inner.OpenFile(name, flag, perm)
		return e
	})
	if err != nil {
		return f, err
	}
	return &File{fs: r, f: f, path: name, flag: flag}, nil
}

func (r *FS) Mkdir(name string, perm os.FileMode) error {
	return r.do(Op{Name: "Mkdir", Path: name, Perm: perm, Mut: true}, func() error { return r.inner.Mkdir(name, perm) })
}

func (r *FS) Remove(name string) error {
	return r.do(Op{Name: "Remove", Path: name, Mut: true}, func() error { return r.inner.Remove(name) })
}

func (r *FS) Rename(oldpath, newpath string) error {
	return r.do(Op{Name: "Rename", Path: oldpath, Path2: newpath, Mut: true}, func() error {
		// memfs deviation: renaming a directory into its own subtree corrupts the tree
		if oldpath == newpath {
			if _, err := r.inner.Lstat(oldpath); err != nil {
				return &os.LinkError{Op: "rename", Old: oldpath, New: newpath, Err: syscall.ENOENT}
			}
			return nil
		}
		if strings.HasPrefix(newpath, strings.TrimSuffix(oldpath, "/")+"/") {
			return &os.LinkError{Op: "rename", Old: oldpath, New: newpath, Err: syscall.EINVAL}
		}
		return r.inner.Rename(oldpath, newpath)
	})
}

// snapInfo is a FileInfo whose fields were copied while the backend lock was held:
// memfs hands out FileInfos that read the live inode lazily, which is a data race
// with later writes and not the "thread-safe backend" the properties assume.
type snapInfo struct {
	name string
	size int64
	mode os.FileMode
	mod  time.Time
	sys  any
}

func (s snapInfo) Name() string       { return s.name }
func (s snapInfo) Size() int64        { return s.size }
func (s snapInfo) Mode() os.FileMode  { return s.mode }
func (s snapInfo) ModTime() time.Time { return s.mod }
func (s snapInfo) IsDir() bool        { return s.mode.IsDir() }
func (s snapInfo) Sys() any           { return s.sys }

func snap(fi os.FileInfo) os.FileInfo {
	if fi == nil {
		return nil
	}
	return snapInfo{name: fi.Name(), size: fi.Size(), mode: fi.Mode(), mod: fi.ModTime()}
}

func (r *FS) Stat(name string) (os.FileInfo, error) {
	var fi os.FileInfo
	err := r.do(Op{Name: "Stat", Path: name}, func() error {
		var e error
		fi, e = r.inner.Stat(name)
		if e == nil {
			fi = snap(fi)
		}
		return e
	})
	return fi, err
}

func (r *FS) Chmod(name string, mode os.FileMode) error {
	return r.do(Op{Name: "Chmod", Path: name, Perm: mode, Mut: true}, func() error {
		// memfs deviation: Chmod replaces the whole mode word, dropping the
		// type bits; POSIX chmod cannot change the type. Re-attach them.
		fi, err := r.inner.Lstat(name)
		if err != nil {
			return err
		}
		return r.inner.Chmod(name, fi.Mode()&os.ModeType|mode&^os.ModeType)
	})
}

func (r *FS) Chtimes(name string, atime, mtime time.Time) error {
	return r.do(Op{Name: "Chtimes", Path: name, Mut: true}, func() error { return r.inner.Chtimes(name, atime, mtime) })
}

func (r *FS) Chown(name string, uid, gid int) error {
	return r.do(Op{Name: "Chown", Path: name, UID: uid, GID: gid, Mut: true}, func() error { return r.inner.Chown(name, uid, gid) })
}

func (r *FS) ReadDir(name string) ([]fs.DirEntry, error) {
	var out []fs.DirEntry
	err := r.do(Op{Name: "ReadDir", Path: name}, func() error {
		var e error
		out, e = r.inner.ReadDir(name)
		for i := range out {
			if info, ierr := out[i].Info(); ierr == nil {
				out[i] = fs.FileInfoToDirEntry(snap(info))
			}
		}
		return e
	})
	return out, err
}

func (r *FS) ReadFile(name string) ([]byte, error) {
	var out []byte
	err := r.do(Op{Name: "ReadFile", Path: name}, func() error {
		var e error
		out, e = r.inner.ReadFile(name)
		return e
	})
	return out, err
}

func (r *FS) Sub(dir string) (fs.FS, error) {
	var out fs.FS
	err := r.do(Op{Name: "Sub", Path: dir}, func() error {
		var e error
		out, e = r.inner.Sub(dir)
		return e
	})
	return out, err
}

// ---- absfs.FileSystem

func (r *FS) Chdir(dir string) error {
	return r.do(Op{Name: "Chdir", Path: dir}, func() error { return r.inner.Chdir(dir) })
}
func (r *FS) Getwd() (string, error) { return r.inner.Getwd() }
func (r *FS) TempDir() string        { return r.inner.TempDir() }

func (r *FS) Open(name string) (absfs.File, error) {
	var f absfs.File
	err := r.do(Op{Name: "Open", Path: name}, func() error {
		var e error
		f, e = r.inner.Open(name)
		return e
	})
	if err != nil {
		return f, err
	}
	return &File{fs: r, f: f, path: name, flag: os.O_RDONLY}, nil
}

func (r *FS) Create(name string) (absfs.File, error) {
	var f absfs.File
	err := r.do(Op{Name: "Create", Path: name, Mut: true}, func() error {
		var e error
		f, e = r.inner.Create(name)
		return e
	})
	if err != nil {
		return f, err
	}
	return &File{fs: r, f: f, path: name, flag: os.O_RDWR | os.O_CREATE | os.O_TRUNC}, nil
}

func (r *FS) MkdirAll(name string, perm os.FileMode) error {
	return r.do(Op{Name: "MkdirAll", Path: name, Perm: perm, Mut: true}, func() error { return r.inner.MkdirAll(name, perm) })
}

func (r *FS) RemoveAll(p string) error {
	return r.do(Op{Name: "RemoveAll", Path: p, Mut: true}, func() error { return r.inner.RemoveAll(p) })
}

func (r *FS) Truncate(name string, size int64) error {
	return r.do(Op{Name: "Truncate", Path: name, Off: size, Mut: true}, func() error {
		if size < 0 {
			return &os.PathError{Op: "truncate", Path: name, Err: syscall.EINVAL}
		}
		if size > r.maxSize() {
			return &os.PathError{Op: "truncate", Path: name, Err: syscall.EFBIG}
		}
		fi, err := r.inner.Stat(name)
		if err != nil {
			return err
		}
		if fi.IsDir() {
			return &os.PathError{Op: "truncate", Path: name, Err: syscall.EISDIR}
		}
		return r.inner.Truncate(name, size)
	})
}

// ---- absfs.SymLinker

func (r *FS) Lstat(name string) (os.FileInfo, error) {
	var fi os.FileInfo
	err := r.do(Op{Name: "Lstat", Path: name}, func() error {
		var e error
		fi, e = r.inner.Lstat(name)
		if e == nil {
			fi = snap(fi)
		}
		return e
	})
	return fi, err
}

func (r *FS) Lchown(name string, uid, gid int) error {
	return r.do(Op{Name: "Lchown", Path: name, UID: uid, GID: gid, Mut: true}, func() error { return r.inner.Lchown(name, uid, gid) })
}

func (r *FS) Readlink(name string) (string, error) {
	var s string
	err := r.do(Op{Name: "Readlink", Path: name}, func() error {
		var e error
		s, e = r.inner.Readlink(name)
		return e
	})
	return s, err
}

func (r *FS) Symlink(oldname, newname string) error {
	return r.do(Op{Name: "Symlink", Path: newname, Path2: oldname, Mut: true}, func() error { return r.inner.Symlink(oldname, newname) })
}

// ---- File

// File wraps an open file and logs data operations against its path.
type File struct {
	fs   *FS
	f    absfs.File
	path string
	flag int
}

func (f *File) Name() string { return f.f.Name() }

func (f *File) Read(b []byte) (int, error) {
	var n int
	err := f.fs.do(Op{Name: "Read", Path: f.path, Len: int64(len(b))}, func() error {
		var e error
		n, e = f.f.Read(b)
		return e
	})
	return n, err
}

func (f *File) ReadAt(b []byte, off int64) (int, error) {
	var n int
	err := f.fs.do(Op{Name: "ReadAt", Path: f.path, Off: off, Len: int64(len(b))}, func() error {
		var e error
		n, e = f.f.ReadAt(b, off)
		return e
	})
	return n, err
}

func (f *File) Write(b []byte) (int, error) {
	var n int
	op := Op{Name: "Write", Path: f.path, Len: int64(len(b)), Mut: true}
	if f.fs.KeepData {
		op.Data = append([]byte(nil), b...)
	}
	err := f.fs.do(op, func() error {
		if int64(len(b)) > f.fs.maxSize() {
			return &os.PathError{Op: "write", Path: f.path, Err: syscall.EFBIG}
		}
		var e error
		n, e = f.f.Write(b)
		return e
	})
	return n, err
}

func (f *File) WriteAt(b []byte, off int64) (int, error) {
	var n int
	op := Op{Name: "WriteAt", Path: f.path, Off: off, Len: int64(len(b)), Mut: true}
	if f.fs.KeepData {
		op.Data = append([]byte(nil), b...)
	}
	err := f.fs.do(op, func() error {
		if off < 0 {
			return &os.PathError{Op: "writeat", Path: f.path, Err: syscall.EINVAL}
		}
		end := off + int64(len(b))
		if end < off || end > f.fs.maxSize() {
			return &os.PathError{Op: "writeat", Path: f.path, Err: syscall.EFBIG}
		}
		if len(b) == 0 {
			// memfs deviation: an empty WriteAt beyond EOF bumps the inode size without
			// storing anything; POSIX pwrite of 0 bytes changes nothing
			return nil
		}
		var e error
		n, e = f.f.WriteAt(b, off)
		return e
	})
	return n, err
}

func (f *File) WriteString(s string) (int, error) { return f.Write([]byte(s)) }

func (f *File) Truncate(size int64) error {
	return f.fs.do(Op{Name: "FTruncate", Path: f.path, Off: size, Mut: true}, func() error {
		if size < 0 {
			return &os.PathError{Op: "truncate", Path: f.path, Err: syscall.EINVAL}
		}
		if size > f.fs.maxSize() {
			return &os.PathError{Op: "truncate", Path: f.path, Err: syscall.EFBIG}
		}
		return f.f.Truncate(size)
	})
}

func (f *File) Close() error { return f.f.Close() }

func (f *File) Sync() error {
	return f.fs.do(Op{Name: "Sync", Path: f.path}, func() error { return f.f.Sync() })
}

func (f *File) Stat() (os.FileInfo, error) {
	var fi os.FileInfo
	err := f.fs.do(Op{Name: "FStat", Path: f.path}, func() error {
		var e error
		fi, e = f.f.Stat()
		if e == nil {
			fi = snap(fi)
		}
		return e
	})
	return fi, err
}

func (f *File) Readdir(n int) ([]os.FileInfo, error) {
	var out []os.FileInfo
	err := f.fs.do(Op{Name: "Readdir", Path: f.path}, func() error {
		var e error
		out, e = f.f.Readdir(n)
		for i := range out {
			if out[i] != nil {
				out[i] = snap(out[i])
			}
		}
		return e
	})
	return out, err
}

func (f *File) Readdirnames(n int) ([]string, error) {
	var out []string
	err := f.fs.do(Op{Name: "Readdirnames", Path: f.path}, func() error {
		var e error
		out, e = f.f.Readdirnames(n)
		return e
	})
	return out, err
}

func (f *File) ReadDir(n int) ([]fs.DirEntry, error) {
	var out []fs.DirEntry
	err := f.fs.do(Op{Name: "FReadDir", Path: f.path}, func() error {
		var e error
		out, e = f.f.ReadDir(n)
		for i := range out {
			if info, ierr := out[i].Info(); ierr == nil {
				out[i] = fs.FileInfoToDirEntry(snap(info))
			}
		}
		return e
	})
	return out, err
}

func (f *File) Seek(off int64, whence int) (int64, error) { return f.f.Seek(off, whence) }

// ---- tree dump (unlogged)

// Node is one object of a tree dump.
type Node struct {
	Path   string      `json:"path"`
	Kind   string      `json:"kind"` // f d l
	Perm   os.FileMode `json:"perm"`
	Size   int64       `json:"size"`
	Data   string      `json:"data,omitempty"`
	Target string      `json:"target,omitempty"`
}

// Dump returns the whole tree in path order, read directly from memfs.
func (r *FS) Dump() []Node {
	r.mu.Lock()
	defer r.mu.Unlock()
	var out []Node
	var walk func(p string)
	walk = func(p string) {
		fi, err := r.inner.Lstat(p)
		if err != nil {
			return
		}
		n := Node{Path: p, Perm: fi.Mode().Perm()}
		switch {
		case fi.Mode()&os.ModeSymlink != 0:
			n.Kind = "l"
			n.Target, _ = r.inner.Readlink(p)
		case fi.IsDir():
			n.Kind = "d"
		default:
			n.Kind = "f"
			n.Size = fi.Size()
			b, _ := r.inner.ReadFile(p)
			n.Data = string(b)
			if int64(len(b)) != fi.Size() {
				n.Data = fmt.Sprintf("<<size %d but %d bytes readable>>%s", fi.Size(), len(b), b)
			}
		}
		out = append(out, n)
		if n.Kind == "d" {
			ents, err := r.inner.ReadDir(p)
			if err != nil {
				return
			}
			var names []string
			for _, e := range ents {
				if e.Name() == "." || e.Name() == ".." {
					continue
				}
				names = append(names, e.Name())
			}
			sort.Strings(names)
			for _, nm := range names {
				walk(path.Join(p, nm))
			}
		}
	}
	walk("/")
	return out
}

// DumpString is a canonical one-line-per-object rendering of Dump.
func (r *FS) DumpString() string {
	var sb strings.Builder
	for _, n := range r.Dump() {
		fmt.Fprintf(&sb, "%s %s %o %d %q %q\n", n.Path, n.Kind, n.Perm, n.Size, n.Data, n.Target)
	}
	return sb.String()
}

var _ absfs.SymlinkFileSystem = (*FS)(nil)
var _ absfs.File = (*File)(nil)
