#!/usr/bin/env python3
"""seedcheck.py [--inplace] [--tier quick|thorough] [--checks C08,C16] <slug> [<slug> ...] | --all
Re-runs checks against stored seeded changes (/verif/seeded/<slug>/patch.diff) and updates meta.json.
Default: the patch is applied to a scratch worktree of /repo HEAD (VERIF_REPO) so that other runs using
/repo are not disturbed. --inplace follows the brief literally: `git -C /repo apply`, run the checks,
`git -C /repo checkout -- .` straight afterwards (refuses when /repo has uncommitted changes)."""
import json, os, shutil, subprocess, sys, time

V = "/verif"
env = dict(os.environ, GOFLAGS="-mod=mod", GOPROXY="off", GOSUMDB="off", GOTOOLCHAIN="local")


def sh(cmd, cwd=None, timeout=6000):
    return subprocess.run(cmd, cwd=cwd, env=env, capture_output=True, text=True, timeout=timeout)


def run_checks(repo, checks, tier):
    out = {}
    for ck in checks:
        t = time.time()
        e = dict(env, VERIF_DIR=V, VERIF_NOEVIDENCE="1", VERIF_STALL_S="60")
        if repo != "/repo":
            e.update(VERIF_REPO=repo, VERIF_EPHEMERAL="1")
        r = subprocess.run([f"{V}/bin/vcheck", ck, "--tier", tier], cwd=V, capture_output=True, text=True, timeout=20000, env=e)
        sigs = [l.strip()[4:] for l in r.stdout.splitlines() if l.strip().startswith("sig=")]
        out[ck] = {"tier": tier, "exit": r.returncode, "caught": r.returncode == 1 and f"VIOLATION property={ck}" in r.stdout,
                   "signatures": sigs[:6], "seconds": round(time.time() - t), "summary": r.stdout.strip().splitlines()[-1:]}
        if r.returncode not in (0, 1):
            out[ck]["stderr"] = r.stderr[-1500:]
    return out


def main():
    args = sys.argv[1:]
    inplace = "--inplace" in args
    tier = args[args.index("--tier") + 1] if "--tier" in args else "quick"
    checks_arg = args[args.index("--checks") + 1].split(",") if "--checks" in args else None
    skip = set()
    for flag in ("--tier", "--checks"):
        if flag in args:
            skip.add(args.index(flag)); skip.add(args.index(flag) + 1)
    slugs = [a for i, a in enumerate(args) if i not in skip and not a.startswith("--")]
    if "--all" in args:
        slugs = sorted(d for d in os.listdir(f"{V}/seeded") if os.path.exists(f"{V}/seeded/{d}/patch.diff"))
    rc = 0
    for slug in slugs:
        d = f"{V}/seeded/{slug}"
        meta = json.load(open(f"{d}/meta.json"))
        checks = checks_arg or sorted(meta.get("checks", {}).keys()) or [meta["property"]]
        if inplace:
            if sh(["git", "-C", "/repo", "status", "--porcelain", "--untracked-files=no"]).stdout.strip():
                print("refusing --inplace: /repo has uncommitted changes"); return 2
            r = sh(["git", "-C", "/repo", "apply", f"{d}/patch.diff"])
            if r.returncode != 0:
                print(f"{slug}: patch does not apply to /repo: {r.stderr.strip()}"); rc = 1; continue
            try:
                res = run_checks("/repo", checks, tier)
            finally:
                sh(["git", "-C", "/repo", "checkout", "--", "."])
        else:
            scratch = f"/tmp/vseed-{slug}-{os.getpid()}"
            sh(["git", "-C", "/repo", "worktree", "add", "--detach", scratch, "HEAD"])
            try:
                r = sh(["git", "apply", f"{d}/patch.diff"], cwd=scratch)
                if r.returncode != 0:
                    print(f"{slug}: patch does not apply: {r.stderr.strip()}"); rc = 1; continue
                res = run_checks(scratch, checks, tier)
            finally:
                sh(["git", "-C", "/repo", "worktree", "remove", "--force", scratch])
                shutil.rmtree(scratch, ignore_errors=True)
        meta.setdefault("checks", {}).update(res)
        meta["last_checked"] = {"mode": "inplace" if inplace else "scratch", "tier": tier,
                                "repo_head": sh(["git", "-C", "/repo", "rev-parse", "--short", "HEAD"]).stdout.strip()}
        json.dump(meta, open(f"{d}/meta.json", "w"), indent=1)
        for ck, v in res.items():
            print(f"{slug}: {ck} {'CAUGHT' if v['caught'] else 'MISSED'} exit={v['exit']} {v['seconds']}s {v['signatures'][:2]}")
            if not v["caught"] and ck == meta["property"]:
                rc = 1
    return rc


if __name__ == "__main__":
    sys.exit(main())
