package absnfs

// C13 — XDR, RPC and record-marking codecs are exact and bounded.
// Boundary-exhaustive enumeration of values, lengths, cut points, declared
// lengths and fragmentations against the independent wire kit.

import (
	"bytes"
	"encoding/binary"
	"encoding/json"
	"fmt"
	"io"
	"runtime"
	"runtime/debug"
	"testing/iotest"

	"github.com/absfs/absnfs/internal/verif/wire"
)

type c13Case struct {
	Kind string `json:"kind"`
	Len  int    `json:"len,omitempty"`
	Data []byte `json:"data,omitempty"`
	Cut  int    `json:"cut,omitempty"`
	N    uint64 `json:"n,omitempty"`
	Frag []int  `json:"frag,omitempty"`
	Max  int    `json:"max,omitempty"`
	Aux  int    `json:"aux,omitempty"`
}

func c13CredOf(c *RPCCall) []byte {
	if c == nil {
		return nil
	}
	return c.Credential.Body
}

// allocDelta runs f with the collector off and returns bytes allocated.
func allocDelta(f func()) uint64 {
	old := debug.SetGCPercent(-1)
	defer debug.SetGCPercent(old)
	var a, b runtime.MemStats
	runtime.ReadMemStats(&a)
	f()
	runtime.ReadMemStats(&b)
	return b.TotalAlloc - a.TotalAlloc
}

func c13Content(n int, seed int) []byte {
	al := []byte{0x01, 'a', 0xff, 0x7f}
	b := make([]byte, n)
	for i := range b {
		b[i] = al[(i*7+seed)%len(al)]
	}
	return b
}

func c13Run(c *vCtx, cs c13Case) {
	c.beat(func() any { return cs })
	c.res.Evaluations++
	bad := func(sig, msg string) { c.violation("C13|"+sig, msg, cs) }
	switch cs.Kind {
	case "string":
		// round trip + exact consumption (sentinel follows)
		var buf bytes.Buffer
		if err := xdrEncodeString(&buf, string(cs.Data)); err != nil {
			bad("string-encode-error", err.Error())
			return
		}
		var ref wire.Enc
		ref.Str(string(cs.Data))
		if !bytes.Equal(buf.Bytes(), ref.B) {
			bad("string-encoding-differs-from-rfc", fmt.Sprintf("xdrEncodeString(%q) = % x, RFC 4506 encoding % x", cs.Data, buf.Bytes(), ref.B))
		}
		enc := append(append([]byte{}, ref.B...), 0xAA, 0xBB, 0xCC, 0xDD)
		rd := bytes.NewReader(enc)
		s, err := xdrDecodeString(rd)
		hasNul := bytes.IndexByte(cs.Data, 0) >= 0
		over := len(cs.Data) > 8192
		switch {
		case over:
			if err == nil {
				bad("string-over-limit-accepted", fmt.Sprintf("string of %d bytes accepted (limit 8192)", len(cs.Data)))
			}
		case hasNul:
			if err == nil && s != string(cs.Data) {
				bad("string-roundtrip-mismatch", fmt.Sprintf("decoded %q, encoded %q", s, cs.Data))
			}
		default:
			if err != nil {
				bad("string-roundtrip-error", fmt.Sprintf("len %d: %v", len(cs.Data), err))
			} else {
				if s != string(cs.Data) {
					bad("string-roundtrip-mismatch", fmt.Sprintf("decoded %q, encoded %q", s, cs.Data))
				}
				if rd.Len() != 4 {
					bad("string-consumed-wrong-length", fmt.Sprintf("len %d: %d bytes left after decode, want 4 (sentinel)", len(cs.Data), rd.Len()))
				}
			}
		}
	case "string-cut":
		var ref wire.Enc
		ref.Str(string(cs.Data))
		_, err := xdrDecodeString(bytes.NewReader(ref.B[:cs.Cut]))
		if err == nil {
			bad("string-truncated-accepted", fmt.Sprintf("encoding of %d-byte string cut at %d/%d decoded without error", len(cs.Data), cs.Cut, len(ref.B)))
		}
	case "string-declared":
		hdr := binary.BigEndian.AppendUint32(nil, uint32(cs.N))
		var err error
		d := allocDelta(func() { _, err = xdrDecodeString(bytes.NewReader(hdr)) })
		if err == nil {
			bad("declared-length-accepted|what=string", fmt.Sprintf("declared length %d over an empty reader accepted", cs.N))
		}
		if d > 8192+65536 {
			bad("allocation-before-limit-check|what=string", fmt.Sprintf("declared length %d allocated %d bytes", cs.N, d))
		}
	case "fh":
		var buf bytes.Buffer
		xdrEncodeFileHandle(&buf, cs.N)
		var ref wire.Enc
		ref.FH(cs.N)
		if !bytes.Equal(buf.Bytes(), ref.B) {
			bad("fh-encoding-differs-from-rfc", fmt.Sprintf("% x vs % x", buf.Bytes(), ref.B))
		}
		rd := bytes.NewReader(append(append([]byte{}, ref.B...), 1, 2, 3, 4))
		v, err := xdrDecodeFileHandle(rd)
		if err != nil || v != cs.N || rd.Len() != 4 {
			bad("fh-roundtrip", fmt.Sprintf("handle %#x: got %#x err=%v left=%d", cs.N, v, err, rd.Len()))
		}
		for cut := 0; cut < len(ref.B); cut++ {
			if _, err := xdrDecodeFileHandle(bytes.NewReader(ref.B[:cut])); err == nil {
				bad("fh-truncated-accepted", fmt.Sprintf("cut %d accepted", cut))
			}
		}
	case "fh-len":
		var ref wire.Enc
		ref.Opaque(c13Content(cs.Len, 1))
		full := append(append([]byte{}, ref.B...), 9, 9, 9, 9)
		rd := bytes.NewReader(full)
		var err error
		d := allocDelta(func() { _, err = xdrDecodeFileHandle(rd) })
		if cs.Len == 8 {
			if err != nil {
				bad("fh-8-rejected", err.Error())
			}
		} else if err == nil {
			bad("fh-foreign-length-accepted", fmt.Sprintf("handle of %d bytes accepted", cs.Len))
		}
		if cs.Len <= 64 && rd.Len() != 4 {
			bad("fh-consumed-wrong-length", fmt.Sprintf("handle of %d bytes: %d bytes left, want 4", cs.Len, rd.Len()))
		}
		if d > 65536 {
			bad("allocation-before-limit-check|what=fh", fmt.Sprintf("handle length %d allocated %d", cs.Len, d))
		}
	case "fh-declared":
		hdr := binary.BigEndian.AppendUint32(nil, uint32(cs.N))
		var err error
		d := allocDelta(func() { _, err = xdrDecodeFileHandle(bytes.NewReader(hdr)) })
		if err == nil {
			bad("declared-length-accepted|what=fh", fmt.Sprintf("declared %d", cs.N))
		}
		if d > 65536 {
			bad("allocation-before-limit-check|what=fh", fmt.Sprintf("declared %d allocated %d", cs.N, d))
		}
	case "call":
		// cs.Len = credential body length, cs.Aux = verifier length, cs.N = flavor
		cred := c13Content(cs.Len, 2)
		verf := c13Content(cs.Aux, 3)
		var e wire.Enc
		e.U32(0xdeadbeef).U32(0).U32(2).U32(100003).U32(3).U32(7).U32(uint32(cs.N)).Opaque(cred).U32(uint32(cs.N) ^ 1).Opaque(verf)
		msg := append(append([]byte{}, e.B...), 0x11, 0x22, 0x33, 0x44)
		rd := bytes.NewReader(msg)
		call, err := DecodeRPCCall(rd)
		over := cs.Len > 400 || cs.Aux > 400
		if over {
			if err == nil {
				bad("auth-over-limit-accepted", fmt.Sprintf("cred %d / verf %d bytes accepted (limit 400)", cs.Len, cs.Aux))
			}
			return
		}
		if err != nil {
			bad("call-roundtrip-error", fmt.Sprintf("cred %d verf %d: %v", cs.Len, cs.Aux, err))
			return
		}
		h := call.Header
		if h.Xid != 0xdeadbeef || h.RPCVersion != 2 || h.Program != 100003 || h.Version != 3 || h.Procedure != 7 ||
			call.Credential.Flavor != uint32(cs.N) || !bytes.Equal(call.Credential.Body, cred) ||
			call.Verifier.Flavor != uint32(cs.N)^1 || !bytes.Equal(call.Verifier.Body, verf) {
			bad("call-roundtrip-mismatch", fmt.Sprintf("decoded %+v", call))
		}
		if rd.Len() != 4 {
			bad("call-consumed-wrong-length", fmt.Sprintf("cred %d verf %d: %d bytes left, want 4", cs.Len, cs.Aux, rd.Len()))
		}
		// the same bytes delivered in pieces (a raw-mode connection hands the decoder the socket:
		// a segment boundary may fall anywhere): every two-piece split, and one byte per Read
		same := func(c2 *RPCCall) bool {
			return c2 != nil && c2.Header == call.Header && c2.Credential.Flavor == call.Credential.Flavor && bytes.Equal(c2.Credential.Body, cred) &&
				c2.Verifier.Flavor == call.Verifier.Flavor && bytes.Equal(c2.Verifier.Body, verf)
		}
		for split := 1; split < len(msg); split++ {
			tail := bytes.NewReader(msg[split:])
			c2, err := DecodeRPCCall(io.MultiReader(bytes.NewReader(msg[:split]), tail))
			if err != nil || !same(c2) || tail.Len() != 4-max(0, split-len(e.B)) {
				bad("call-decoding-depends-on-read-boundaries", fmt.Sprintf("cred %d verf %d: delivered as %d + %d bytes the call decodes to err=%v body=%x (whole: %x), %d bytes left", cs.Len, cs.Aux, split, len(msg)-split, err, c13CredOf(c2), cred, tail.Len()))
				break
			}
		}
		if c2, err := DecodeRPCCall(iotest.OneByteReader(bytes.NewReader(msg))); err != nil || !same(c2) {
			bad("call-decoding-depends-on-read-boundaries", fmt.Sprintf("cred %d verf %d: delivered one byte per Read the call decodes to err=%v", cs.Len, cs.Aux, err))
		}
		for cut := 0; cut < len(e.B); cut++ {
			if _, err := DecodeRPCCall(bytes.NewReader(e.B[:cut])); err == nil {
				bad("call-truncated-accepted", fmt.Sprintf("cred %d verf %d cut %d/%d accepted", cs.Len, cs.Aux, cut, len(e.B)))
				break
			}
		}
	case "call-declared":
		var e wire.Enc
		e.U32(1).U32(0).U32(2).U32(100003).U32(3).U32(0).U32(1).U32(uint32(cs.N))
		var err error
		d := allocDelta(func() { _, err = DecodeRPCCall(bytes.NewReader(e.B)) })
		if err == nil {
			bad("declared-length-accepted|what=cred", fmt.Sprintf("declared %d", cs.N))
		}
		if d > 400+65536 {
			bad("allocation-before-limit-check|what=cred", fmt.Sprintf("declared credential length %d allocated %d bytes", cs.N, d))
		}
	case "authsys":
		aux := make([]uint32, cs.Aux)
		for i := range aux {
			aux[i] = uint32(i*3 + 1)
		}
		name := string(c13Content(cs.Len, 5))
		body := wire.AuthSys(uint32(cs.N), name, 0xfffffffe, 7, aux)
		cr, err := ParseAuthSysCredential(body)
		if cs.Aux > 16 {
			if err == nil {
				bad("authsys-17-gids-accepted", fmt.Sprintf("%d auxiliary gids accepted", cs.Aux))
			}
			return
		}
		if err != nil {
			bad("authsys-roundtrip-error", fmt.Sprintf("name %d gids %d: %v", cs.Len, cs.Aux, err))
			return
		}
		ok := cr.Stamp == uint32(cs.N) && cr.MachineName == name && cr.UID == 0xfffffffe && cr.GID == 7 && len(cr.AuxGIDs) == len(aux)
		for i := 0; ok && i < len(aux); i++ {
			ok = cr.AuxGIDs[i] == aux[i]
		}
		if !ok {
			bad("authsys-roundtrip-mismatch", fmt.Sprintf("decoded %+v", cr))
		}
		for cut := 0; cut < len(body); cut++ {
			if _, err := ParseAuthSysCredential(body[:cut]); err == nil {
				bad("authsys-truncated-accepted", fmt.Sprintf("name %d gids %d: cut %d/%d accepted", cs.Len, cs.Aux, cut, len(body)))
				break
			}
		}
	case "authsys-declared":
		var e wire.Enc
		e.U32(1).Str("h").U32(0).U32(0).U32(uint32(cs.N))
		var err error
		d := allocDelta(func() { _, err = ParseAuthSysCredential(e.B) })
		if err == nil && cs.N > 16 {
			bad("declared-length-accepted|what=gids", fmt.Sprintf("declared %d gids", cs.N))
		}
		if d > 65536 {
			bad("allocation-before-limit-check|what=gids", fmt.Sprintf("declared %d gids allocated %d bytes", cs.N, d))
		}
	case "frag":
		// a record of cs.Len bytes cut into cs.Frag fragment sizes (0 = empty fragment), followed by a second record
		rec := c13Content(cs.Len, 4)
		var stream []byte
		rest := rec
		for i, n := range cs.Frag {
			h := uint32(n)
			if i == len(cs.Frag)-1 {
				h |= 0x80000000
			}
			stream = binary.BigEndian.AppendUint32(stream, h)
			stream = append(stream, rest[:n]...)
			rest = rest[n:]
		}
		second := []byte("second!")
		stream = append(stream, wire.Record(second)...)
		r := NewRecordMarkingReader(bytes.NewReader(stream))
		got, err := r.ReadRecord()
		if err != nil || !bytes.Equal(got, rec) {
			bad("reassembly-mismatch", fmt.Sprintf("record %d bytes as fragments %v: got %d bytes err=%v", cs.Len, cs.Frag, len(got), err))
			return
		}
		got2, err := r.ReadRecord()
		if err != nil || !bytes.Equal(got2, second) {
			bad("stream-desynchronised-after-record", fmt.Sprintf("after fragments %v the next record reads %q err=%v", cs.Frag, got2, err))
		}
	case "bigrec":
		// cs.Len bytes in cs.Max equal fragments
		rec := make([]byte, cs.Len)
		for i := range rec {
			rec[i] = byte(i * 31)
		}
		var sizes []int
		per := cs.Len / cs.Max
		for i := 0; i < cs.Max-1; i++ {
			sizes = append(sizes, per)
		}
		stream := wire.Fragments(rec, sizes...)
		r := NewRecordMarkingReader(bytes.NewReader(stream))
		var got []byte
		var err error
		d := allocDelta(func() { got, err = r.ReadRecord() })
		if cs.Len <= 1<<20 {
			if err != nil || !bytes.Equal(got, rec) {
				bad("reassembly-mismatch", fmt.Sprintf("record of %d bytes in %d fragments: err=%v len=%d", cs.Len, cs.Max, err, len(got)))
			}
		} else if err == nil {
			bad("record-over-limit-accepted", fmt.Sprintf("record of %d bytes in %d fragments accepted (limit 1 MiB)", cs.Len, cs.Max))
		}
		if d > 6<<20 {
			bad("allocation-unbounded|what=record", fmt.Sprintf("record of %d bytes in %d fragments allocated %d bytes", cs.Len, cs.Max, d))
		}
	case "rec-declared":
		hdr := binary.BigEndian.AppendUint32(nil, uint32(cs.N))
		r := NewRecordMarkingReader(bytes.NewReader(hdr))
		var err error
		d := allocDelta(func() { _, err = r.ReadRecord() })
		if err == nil {
			bad("declared-length-accepted|what=fragment", fmt.Sprintf("fragment header %#x over empty stream accepted", cs.N))
		}
		decl := cs.N &^ 0x80000000
		if decl > 1<<20 && d > 65536 {
			bad("allocation-before-limit-check|what=fragment", fmt.Sprintf("fragment header declaring %d bytes allocated %d", decl, d))
		}
		if d > 1<<20+65536 {
			bad("allocation-unbounded|what=fragment", fmt.Sprintf("fragment header declaring %d bytes allocated %d", decl, d))
		}
	case "writeread":
		rec := make([]byte, cs.Len)
		for i := range rec {
			rec[i] = byte(i*13 + 5)
		}
		var buf bytes.Buffer
		w := NewRecordMarkingWriterWithSize(&buf, cs.Max)
		if err := w.WriteRecord(rec); err != nil {
			bad("write-error", err.Error())
			return
		}
		if err := w.WriteRecord([]byte("tail")); err != nil {
			bad("write-error", err.Error())
			return
		}
		// independent reassembly of what the writer produced
		ind, rest, ierr := c13Reassemble(buf.Bytes())
		if ierr != nil || !bytes.Equal(ind, rec) {
			bad("writer-output-not-rfc1831", fmt.Sprintf("record %d bytes maxFragment %d: independent reassembly err=%v len=%d", cs.Len, cs.Max, ierr, len(ind)))
		}
		if t, _, e2 := c13Reassemble(rest); e2 != nil || string(t) != "tail" {
			bad("writer-output-not-rfc1831", fmt.Sprintf("second record reassembles to %q err=%v", t, e2))
		}
		r := NewRecordMarkingReader(bytes.NewReader(buf.Bytes()))
		got, err := r.ReadRecord()
		if err != nil || !bytes.Equal(got, rec) {
			bad("write-then-read-not-identity", fmt.Sprintf("record %d bytes maxFragment %d: err=%v len=%d", cs.Len, cs.Max, err, len(got)))
			return
		}
		got, err = r.ReadRecord()
		if err != nil || string(got) != "tail" {
			bad("write-then-read-not-identity", fmt.Sprintf("second record %q err=%v", got, err))
		}
	}
}

// c13Reassemble is an independent RFC 1831 record reassembler.
func c13Reassemble(b []byte) (rec, rest []byte, err error) {
	for {
		if len(b) < 4 {
			return nil, nil, io.ErrUnexpectedEOF
		}
		h := binary.BigEndian.Uint32(b)
		n := int(h &^ 0x80000000)
		b = b[4:]
		if len(b) < n {
			return nil, nil, io.ErrUnexpectedEOF
		}
		rec = append(rec, b[:n]...)
		b = b[n:]
		if h&0x80000000 != 0 {
			return rec, b, nil
		}
	}
}

// c13Fragmentations enumerates every sequence of fragment sizes that sums to
// n, with at most one empty fragment inserted before each fragment and at the end.
func c13Fragmentations(n int) [][]int {
	var comps [][]int
	var rec func(left int, cur []int)
	rec = func(left int, cur []int) {
		if left == 0 {
			comps = append(comps, append([]int{}, cur...))
			return
		}
		for k := 1; k <= left; k++ {
			rec(left-k, append(cur, k))
		}
	}
	if n == 0 {
		comps = [][]int{{}}
	} else {
		rec(n, nil)
	}
	var out [][]int
	for _, cp := range comps {
		slots := len(cp) + 1
		for mask := 0; mask < 1<<slots; mask++ {
			var f []int
			for i := 0; i <= len(cp); i++ {
				if mask&(1<<i) != 0 {
					f = append(f, 0)
				}
				if i < len(cp) {
					f = append(f, cp[i])
				}
			}
			if len(f) == 0 {
				continue
			}
			out = append(out, f)
		}
	}
	return out
}

func init() {
	vRegister(&vCheck{
		id: "C13", level: "exploration", flavour: "vtime",
		shards: func(string) int { return 8 },
		rule:   "boundary-exhaustive: strings of every content over a 4-byte alphabet {0x00,0x01,'a',0xFF} for lengths 0..4, patterned contents for lengths 5..9 and 8191/8192/8193, every cut point of every encoding, declared lengths {2^16,2^31-1,2^31,2^32-1} over an empty reader with allocation measured (GC off); file handles: 8 values, every opaque length 0..9,63,64,65; RPC call headers: credential x verifier lengths {0..9,399,400,401}^2 x flavors, every cut point, and the same bytes delivered to the decoder in two pieces at every split point and one byte per Read (the result must not depend on read boundaries); AUTH_SYS bodies: name lengths {0..5,255} x 0..17 gids, every cut point; record marking: every fragmentation (with empty fragments) of records of 0..6 bytes followed by a second record, records of 2^20-1/2^20/2^20+1 bytes in 1/2/1024 fragments, fragment headers declaring up to 2^31-1 bytes; writer->reader identity for sizes 0..9 and up to 2^20 with maxFragment {1,2,3,7,2^20}. Each case is compared with the independent wire kit (RFC encoding, independent reassembly). Non-trivial = every case (each exercises a distinct length/cut/fragmentation).",
		assumptions: []string{"strings containing NUL may be rejected by the decoder (documented restriction); if accepted they must round-trip",
			"allocation bound per decode call: limit + 64 KiB measured with runtime.MemStats.TotalAlloc, collector off, single goroutine"},
		run: func(c *vCtx) {
			var cases []c13Case
			al := []byte{0x00, 0x01, 'a', 0xff}
			var gen func(n int, cur []byte)
			gen = func(n int, cur []byte) {
				if n == 0 {
					cases = append(cases, c13Case{Kind: "string", Data: append([]byte{}, cur...)})
					return
				}
				for _, b := range al {
					gen(n-1, append(cur, b))
				}
			}
			for n := 0; n <= 4; n++ {
				gen(n, nil)
			}
			for _, n := range []int{5, 6, 7, 8, 9, 255, 256, 8191, 8192, 8193} {
				d := c13Content(n, 0)
				cases = append(cases, c13Case{Kind: "string", Data: d})
				var ref wire.Enc
				ref.Str(string(d))
				step := 1
				if n > 300 {
					step = 97
				}
				if n <= 8192 {
					for cut := 0; cut < len(ref.B); cut += step {
						cases = append(cases, c13Case{Kind: "string-cut", Data: d, Cut: cut})
					}
					cases = append(cases, c13Case{Kind: "string-cut", Data: d, Cut: len(ref.B) - 1})
				}
			}
			for n := 0; n <= 4; n++ {
				d := c13Content(n, 0)
				for cut := 0; cut < 4+(n+3)&^3; cut++ {
					cases = append(cases, c13Case{Kind: "string-cut", Data: d, Cut: cut})
				}
			}
			huge := []uint64{8193, 1 << 16, 1<<31 - 1, 1 << 31, 1<<32 - 1}
			for _, n := range huge {
				cases = append(cases, c13Case{Kind: "string-declared", N: n}, c13Case{Kind: "call-declared", N: n})
				cases = append(cases, c13Case{Kind: "fh-declared", N: n}, c13Case{Kind: "authsys-declared", N: n})
			}
			cases = append(cases, c13Case{Kind: "call-declared", N: 401}, c13Case{Kind: "fh-declared", N: 65}, c13Case{Kind: "authsys-declared", N: 17})
			for _, v := range []uint64{0, 1, 255, 1 << 32, 1<<32 - 1, 1<<63 - 1, 1 << 63, 1<<64 - 1} {
				cases = append(cases, c13Case{Kind: "fh", N: v})
			}
			for _, n := range []int{0, 1, 2, 3, 4, 5, 6, 7, 8, 9, 12, 63, 64, 65} {
				cases = append(cases, c13Case{Kind: "fh-len", Len: n})
			}
			lens := []int{0, 1, 2, 3, 4, 5, 6, 7, 8, 9, 399, 400, 401}
			for _, cl := range lens {
				for _, vl := range lens {
					for _, fl := range []uint64{0, 1, 6} {
						if fl != 1 && (cl > 9 || vl > 9) && !c.thorough() {
							continue
						}
						cases = append(cases, c13Case{Kind: "call", Len: cl, Aux: vl, N: fl})
					}
				}
			}
			for _, nl := range []int{0, 1, 2, 3, 4, 5, 255} {
				for g := 0; g <= 17; g++ {
					cases = append(cases, c13Case{Kind: "authsys", Len: nl, Aux: g, N: uint64(g*1000 + nl)})
				}
			}
			maxN := 6
			if c.thorough() {
				maxN = 8
			}
			for n := 0; n <= maxN; n++ {
				for _, f := range c13Fragmentations(n) {
					cases = append(cases, c13Case{Kind: "frag", Len: n, Frag: f})
				}
			}
			for _, n := range []int{1<<20 - 1, 1 << 20, 1<<20 + 1} {
				for _, k := range []int{1, 2, 1024} {
					cases = append(cases, c13Case{Kind: "bigrec", Len: n, Max: k})
				}
			}
			for _, h := range []uint64{0x80000000 | (1<<20 + 1), 1<<20 + 1, 0x80000000 | (1<<31 - 1), 1<<31 - 1, 0x80000000 | 1<<20, 0x80000004, 4} {
				cases = append(cases, c13Case{Kind: "rec-declared", N: h})
			}
			sizes := []int{0, 1, 2, 3, 4, 5, 6, 7, 8, 9, 4096, 1<<20 - 1, 1 << 20}
			for _, n := range sizes {
				for _, mf := range []int{1, 2, 3, 7, 1 << 20} {
					if n > 4096 && mf < 7 && !c.thorough() {
						continue
					}
					cases = append(cases, c13Case{Kind: "writeread", Len: n, Max: mf})
				}
			}
			kinds := map[string]int64{}
			for i, cs := range cases {
				if !c.mine(i) {
					continue
				}
				c13Run(c, cs)
				c.res.Distinct++
				kinds[cs.Kind]++
				if i%97 == 0 {
					c.sample(cs)
				}
			}
			for k, v := range kinds {
				c.count("cases_"+k, v)
			}
		},
		replay: func(c *vCtx, raw json.RawMessage) {
			var cs c13Case
			vMust(json.Unmarshal(raw, &cs), "case")
			c13Run(c, cs)
		},
	})
}
