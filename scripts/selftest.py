#!/usr/bin/env python3
"""selftest.py [name-substring ...]: apply each deliberate breakage of mutants/mutants.jsonl to a scratch
copy of /repo, run the quick check of the property it targets, expect a VIOLATION (exit 1), clean up.
With --suite also runs the repository's test suite on the mutated copy (must pass)."""
import json, os, subprocess, sys, shutil, time
V = "/verif"
args = [a for a in sys.argv[1:] if not a.startswith("--")]
suite = "--suite" in sys.argv
env = dict(os.environ, GOFLAGS="-mod=mod", GOPROXY="off", GOSUMDB="off", GOTOOLCHAIN="local")
muts = [json.loads(l) for l in open(f"{V}/mutants/mutants.jsonl") if l.strip() and not l.startswith("#")]
results = []
sigs_by = {}
for i, m in enumerate(muts):
    if args and not any(a in m["name"] or a == m["property"] for a in args):
        continue
    S = f"/var/tmp/verif-scratch.st{os.getpid()}"
    subprocess.run([f"{V}/scripts/scratch.sh", S], check=True)
    try:
        if m.get("revert_diff"):
            r = subprocess.run(["git", "apply", "-R", "--exclude=*_test.go", "--exclude=docs/*", "--exclude=examples/*", f"{V}/{m['revert_diff']}"], cwd=S, capture_output=True, text=True)
            if r.returncode != 0:
                print(f"MUTANT-STALE {m['name']}: reverse patch does not apply: {r.stderr.strip()[:200]}"); raise SystemExit(2)
        for ed in m.get("edits", []):
            p = os.path.join(S, ed["file"]); s = open(p).read()
            if ed["old"] not in s:
                print(f"MUTANT-STALE {m['name']}: pattern not found in {ed['file']}"); raise SystemExit(2)
            open(p, "w").write(s.replace(ed["old"], ed["new"], 1))
        suite_ok = None
        if suite:
            r = subprocess.run(["go", "test", "-vet=off", "-count=1", "-timeout", "25m", "./..."], cwd=S, env=env, capture_output=True, text=True)
            suite_ok = r.returncode == 0
        t = time.time()
        r = subprocess.run([f"{V}/bin/vcheck", m["property"], "--tier", m.get("tier", "quick")], cwd=V, env=dict(env, VERIF_REPO=S, VERIF_DIR=V, VERIF_NOEVIDENCE="1", VERIF_EPHEMERAL="1", VERIF_STALL_S=os.environ.get("VERIF_STALL_S","120"), **m.get("env", {})), capture_output=True, text=True, timeout=3000)
        sigs = [l.strip() for l in r.stdout.splitlines() if l.strip().startswith("sig=")]
        caught = r.returncode == 1 and "VIOLATION property=" + m["property"] in r.stdout
        print(f"{'CAUGHT' if caught else 'MISSED'} {m['property']} {m['name']} exit={r.returncode} suite={'n/a' if suite_ok is None else ('pass' if suite_ok else 'FAIL')} {time.time()-t:.0f}s {sigs[:2]}")
        if not caught:
            print(r.stdout[-1500:], r.stderr[-1500:])
        results.append((m["name"], caught, suite_ok))
        sigs_by[m["name"]] = (m["property"], sigs[:3])
    finally:
        shutil.rmtree(S, ignore_errors=True)
        for d in os.listdir(f"{V}/build"):
            pass
# keep a record of the last full run (read by scripts/detection.py)
if args and os.path.exists(f"{V}/mutants/results.json"):
    # a partial run updates the entries it re-ran
    rec = json.load(open(f"{V}/mutants/results.json"))
    by = {x["name"]: x for x in rec["results"]}
    for n, c, s in results:
        by[n] = {"name": n, "property": sigs_by[n][0], "caught": c, "suite": s if s is not None else by.get(n, {}).get("suite"), "signatures": sigs_by[n][1]}
    order = [json.loads(l)["name"] for l in open(f"{V}/mutants/mutants.jsonl") if l.strip() and not l.startswith("#")]
    rec["results"] = [by[n] for n in order if n in by]
    json.dump(rec, open(f"{V}/mutants/results.json", "w"), indent=1)
if not args:
    rec = {"repo_head": subprocess.run(["git", "-C", "/repo", "rev-parse", "--short", "HEAD"], capture_output=True, text=True).stdout.strip(),
           "results": [{"name": n, "property": sigs_by[n][0], "caught": c, "suite": s, "signatures": sigs_by[n][1]} for n, c, s in results]}
    json.dump(rec, open(f"{V}/mutants/results.json", "w"), indent=1)
bad = [n for n, c, s in results if not c]
print(f"{len(results)-len(bad)}/{len(results)} caught")
sys.exit(1 if bad else 0)
