package absnfs

// C18 — rate limiters never admit more than burst + rate x elapsed.
// C19 — traffic refused to one client does not consume capacity shared with others.
// Explicit-state search over request timing sequences on the virtual clock at
// the RateLimiter seam, against exact integer token-bucket reference models.

import (
	"encoding/json"
	"fmt"
	"sort"
	"strings"
	"time"

	"github.com/absfs/absnfs/internal/verif/vtime"
)

type rlOp struct {
	Kind string `json:"kind"` // adv req op
	D    int64  `json:"d_ns,omitempty"`
	IP   string `json:"ip,omitempty"`
	Conn string `json:"conn,omitempty"`
	Type string `json:"type,omitempty"`
}

type rlCfg struct {
	Name                                     string
	G, IPRate, IPBurst, ConnRate, ConnBurst int
	Read, Write, Readdir, MountPerMin        int
}

// exact bucket: tokens are kept in units of 1/(60e9) token so that per-minute
// rates are integers too.
const rlUnit = int64(60_000_000_000)

type rlBucket struct {
	t       int64 // tokens * rlUnit
	max     int64
	perMin  int64 // rate in tokens per minute
	last    int64 // ns
	born    int64
	admits  int64
	created bool
}

func (b *rlBucket) refill(now int64) {
	el := now - b.last
	// tokens += el_ns * (perMin/60 per s) = el_ns*perMin/60e9 tokens => units: el*perMin
	add := el * b.perMin
	if b.perMin != 0 && add/b.perMin != el { // overflow guard
		add = b.max
	}
	b.t += add
	if b.t > b.max {
		b.t = b.max
	}
	b.last = now
}

func (b *rlBucket) perMinOr1() int64 {
	if b.perMin == 0 {
		return 1
	}
	return b.perMin
}

// has reports whether the bucket holds one token: 1 yes, 0 no, -1 too close to call
// (within 1e-6 token of the threshold; float64 arithmetic in the implementation).
func (b *rlBucket) has() int {
	eps := rlUnit / 1_000_000
	switch {
	case b.t >= rlUnit+eps:
		return 1
	case b.t < rlUnit-eps:
		return 0
	case b.t == rlUnit && b.perMin%60 == 0:
		// integral rates and whole seconds/quarter seconds are exact in float64 too
		return 1
	}
	return -1
}

func (b *rlBucket) take() {
	b.t -= rlUnit
	if b.t < 0 {
		b.t = 0
	}
	b.admits++
}

type rlModel struct {
	cfg    rlCfg
	global *rlBucket
	ip     map[string]*rlBucket
	conn   map[string]*rlBucket
	op     map[string]*rlBucket
}

func newBucket(ratePerSec int, perMin int, burst int, now int64) *rlBucket {
	pm := int64(ratePerSec) * 60
	if perMin > 0 {
		pm = int64(perMin)
	}
	return &rlBucket{t: int64(burst) * rlUnit, max: int64(burst) * rlUnit, perMin: pm, last: now, born: now, created: true}
}

func newRLModel(cfg rlCfg, now int64) *rlModel {
	return &rlModel{cfg: cfg, global: newBucket(cfg.G, 0, cfg.G, now), ip: map[string]*rlBucket{}, conn: map[string]*rlBucket{}, op: map[string]*rlBucket{}}
}

func (m *rlModel) ipB(ip string, now int64) *rlBucket {
	if b, ok := m.ip[ip]; ok {
		return b
	}
	b := newBucket(m.cfg.IPRate, 0, m.cfg.IPBurst, now)
	m.ip[ip] = b
	return b
}

func (m *rlModel) connB(c string, now int64) *rlBucket {
	if b, ok := m.conn[c]; ok {
		return b
	}
	b := newBucket(m.cfg.ConnRate, 0, m.cfg.ConnBurst, now)
	m.conn[c] = b
	return b
}

func (m *rlModel) opB(ip, typ string, now int64) *rlBucket {
	k := ip + "/" + typ
	if b, ok := m.op[k]; ok {
		return b
	}
	var b *rlBucket
	switch typ {
	case "read_large":
		b = newBucket(m.cfg.Read, 0, 10, now)
	case "write_large":
		b = newBucket(m.cfg.Write, 0, 5, now)
	case "readdir":
		b = newBucket(m.cfg.Readdir, 0, 5, now)
	default:
		b = newBucket(0, m.cfg.MountPerMin, 2, now)
		if m.cfg.MountPerMin == 0 {
			b.perMin = 0
		}
	}
	m.op[k] = b
	return b
}

func (m *rlModel) key() string {
	var parts []string
	parts = append(parts, fmt.Sprintf("g=%d@%d", m.global.t, m.global.last))
	add := func(prefix string, mm map[string]*rlBucket) {
		for _, k := range vSortedKeys(mm) {
			parts = append(parts, fmt.Sprintf("%s%s=%d@%d#%d", prefix, k, mm[k].t, mm[k].last, mm[k].admits))
		}
	}
	add("i", m.ip)
	add("c", m.conn)
	add("o", m.op)
	sort.Strings(parts[1:])
	return strings.Join(parts, ",")
}

type rlState struct {
	cfg      rlCfg
	rl       *RateLimiter // cleanup practically never
	rl2      *RateLimiter // cleanup at every opportunity
	ref      *rlModel     // property model: only admitted requests take shared tokens
	impl     *rlModel     // implementation-shaped model: global taken first, then per-IP, then per-connection
	now      int64
	prop     string
	c        *vCtx
	diverged bool
}

func rlNew(cfg rlCfg, prop string, c *vCtx) *rlState {
	vtime.Set(0)
	mk := func(cleanup time.Duration) *RateLimiter {
		return NewRateLimiter(RateLimiterConfig{GlobalRequestsPerSecond: cfg.G, PerIPRequestsPerSecond: cfg.IPRate, PerIPBurstSize: cfg.IPBurst,
			PerConnectionRequestsPerSecond: cfg.ConnRate, PerConnectionBurstSize: cfg.ConnBurst, ReadLargeOpsPerSecond: cfg.Read,
			WriteLargeOpsPerSecond: cfg.Write, ReaddirOpsPerSecond: cfg.Readdir, MountOpsPerMinute: cfg.MountPerMin, CleanupInterval: cleanup})
	}
	s := &rlState{cfg: cfg, rl: mk(1000 * time.Hour), rl2: mk(time.Nanosecond), ref: newRLModel(cfg, 0), impl: newRLModel(cfg, 0), prop: prop, c: c}
	// drain the per-operation buckets of ip A down to one token so that the boundary is reachable at small depth
	for typ, n := range map[string]int{"read_large": 9, "write_large": 4, "readdir": 4, "mount": 1} {
		for i := 0; i < n; i++ {
			s.rl.AllowOperation("A", OperationType(typ))
			s.rl2.AllowOperation("A", OperationType(typ))
			for _, m := range []*rlModel{s.ref, s.impl} {
				b := m.opB("A", typ, 0)
				b.take()
			}
		}
	}
	return s
}

func (s *rlState) apply(op rlOp, check bool, hist []rlOp) {
	cs := func() any {
		return map[string]any{"cfg": s.cfg, "hist": append(append([]rlOp(nil), hist...), op)}
	}
	vtime.Set(time.Duration(s.now))
	switch op.Kind {
	case "adv":
		s.now += op.D
		vtime.Set(time.Duration(s.now))
		return
	case "req":
		d1 := s.rl.AllowRequest(op.IP, op.Conn)
		d2 := s.rl2.AllowRequest(op.IP, op.Conn)
		// implementation-shaped model
		im := s.impl
		im.global.refill(s.now)
		implD := false
		implUnsure := false
		if h := im.global.has(); h != 0 {
			implUnsure = implUnsure || h < 0
			im.global.take()
			ib := im.ipB(op.IP, s.now)
			ib.refill(s.now)
			if h := ib.has(); h != 0 {
				implUnsure = implUnsure || h < 0
				ib.take()
				if s.cfg.ConnRate > 0 {
					cb := im.connB(op.Conn, s.now)
					cb.refill(s.now)
					if h := cb.has(); h != 0 {
						implUnsure = implUnsure || h < 0
						cb.take()
						implD = true
					}
				} else {
					implD = true
				}
			}
		}
		// property model
		rm := s.ref
		rm.global.refill(s.now)
		ib := rm.ipB(op.IP, s.now)
		ib.refill(s.now)
		var cb *rlBucket
		if s.cfg.ConnRate > 0 {
			cb = rm.connB(op.Conn, s.now)
			cb.refill(s.now)
		}
		g, i, cn := rm.global.has(), ib.has(), 1
		if cb != nil {
			cn = cb.has()
		}
		unsure := g < 0 || i < 0 || cn < 0
		refD := g != 0 && i != 0 && cn != 0
		if check && !s.diverged {
			s.c.res.Evaluations++
			if d1 != d2 {
				s.c.violation(s.prop+"|cleanup-changes-decision|call=request", fmt.Sprintf("request(%s,%s): decision %v with cleanup disabled, %v with cleanup at every call", op.IP, op.Conn, d1, d2), cs())
			}
			switch {
			case unsure || implUnsure:
				s.c.count("decisions_within_float_tolerance_not_judged", 1)
			case d1 && !refD:
				lim := "global"
				if g != 0 && i == 0 {
					lim = "per-ip"
				} else if g != 0 && i != 0 {
					lim = "per-connection"
				}
				if s.prop == "C18" {
					s.c.violation("C18|admits-beyond-burst-plus-rate|limiter="+lim,
						fmt.Sprintf("request(%s,%s) at t=%dns admitted although the %s bucket holds %.6f tokens", op.IP, op.Conn, s.now, lim, float64(map[string]int64{"global": rm.global.t, "per-ip": ib.t, "per-connection": func() int64 {
							if cb != nil {
								return cb.t
							}
							return 0
						}()}[lim])/float64(rlUnit)), cs())
				}
			case !d1 && refD:
				cause := "unexplained"
				if !implD {
					cause = "refused-requests-consumed-global-tokens"
				}
				if s.prop == "C18" {
					s.c.violation("C18|refused-within-all-limits|cause="+cause,
						fmt.Sprintf("request(%s,%s) at t=%dns refused although its per-IP (%.3f) and per-connection buckets and the global budget of admitted requests (%.3f tokens) have room", op.IP, op.Conn, s.now, float64(ib.t)/float64(rlUnit), float64(rm.global.t)/float64(rlUnit)), cs())
				} else {
					s.c.violation("C19|compliant-client-refused|cause="+cause,
						fmt.Sprintf("request(%s,%s) at t=%dns refused: only %d requests were admitted so far, the global budget counted over admitted requests holds %.3f tokens", op.IP, op.Conn, s.now, rm.global.admits, float64(rm.global.t)/float64(rlUnit)), cs())
				}
			}
			s.c.outcome(fmt.Sprintf("req:%v", d1))
		}
		if d1 != refD && !unsure && !implUnsure {
			s.diverged = true // token accounting no longer comparable
		}
		if d1 { // the property model follows admitted requests only
			rm.global.take()
			ib.take()
			if cb != nil {
				cb.take()
			}
		}
	case "op":
		d1 := s.rl.AllowOperation(op.IP, OperationType(op.Type))
		d2 := s.rl2.AllowOperation(op.IP, OperationType(op.Type))
		b := s.ref.opB(op.IP, op.Type, s.now)
		b.refill(s.now)
		h := b.has()
		if check {
			s.c.res.Evaluations++
			if d1 != d2 {
				s.c.violation(s.prop+"|cleanup-changes-decision|call=operation|type="+op.Type, fmt.Sprintf("operation(%s,%s): %v without cleanup, %v with cleanup", op.IP, op.Type, d1, d2), cs())
			}
			if s.prop == "C18" {
				switch {
				case h < 0:
					s.c.count("decisions_within_float_tolerance_not_judged", 1)
				case d1 && h == 0:
					s.c.violation("C18|admits-beyond-burst-plus-rate|limiter=op-"+op.Type,
						fmt.Sprintf("operation(%s,%s) at t=%dns admitted with %.6f tokens in its bucket", op.IP, op.Type, s.now, float64(b.t)/float64(rlUnit)), cs())
				case !d1 && h == 1:
					s.c.violation("C18|operation-refused-within-limit|type="+op.Type,
						fmt.Sprintf("operation(%s,%s) at t=%dns refused with %.6f tokens in its bucket", op.IP, op.Type, s.now, float64(b.t)/float64(rlUnit)), cs())
				}
			}
			s.c.outcome(fmt.Sprintf("op:%s:%v", op.Type, d1))
		}
		if d1 {
			b.take()
		}
		ib := s.impl.opB(op.IP, op.Type, s.now)
		ib.refill(s.now)
		if d1 {
			ib.take()
		}
	}
}

func rlAlphabet(prop string) []rlOp {
	ops := []rlOp{{Kind: "adv", D: int64(250 * time.Millisecond)}, {Kind: "adv", D: int64(time.Second)}, {Kind: "adv", D: int64(6 * time.Second)},
		{Kind: "req", IP: "A", Conn: "a1"}, {Kind: "req", IP: "A", Conn: "a2"}, {Kind: "req", IP: "B", Conn: "b1"}}
	if prop == "C18" {
		for _, t := range []string{"read_large", "write_large", "readdir", "mount"} {
			ops = append(ops, rlOp{Kind: "op", IP: "A", Type: t})
		}
		ops = append(ops, rlOp{Kind: "op", IP: "B", Type: "mount"}, rlOp{Kind: "adv", D: int64(500 * time.Millisecond)})
	}
	return ops
}

func rlConfigs(prop string) []rlCfg {
	base := []rlCfg{
		{Name: "ip-binding", G: 4, IPRate: 2, IPBurst: 2, ConnRate: 1, ConnBurst: 1, Read: 1, Write: 2, Readdir: 4, MountPerMin: 10},
		{Name: "no-conn-limit", G: 2, IPRate: 1, IPBurst: 1, ConnRate: 0, ConnBurst: 0, Read: 2, Write: 1, Readdir: 1, MountPerMin: 20},
		{Name: "global-binding", G: 1, IPRate: 4, IPBurst: 4, ConnRate: 4, ConnBurst: 4, Read: 4, Write: 4, Readdir: 2, MountPerMin: 60},
		{Name: "conn-binding", G: 8, IPRate: 1, IPBurst: 2, ConnRate: 2, ConnBurst: 1, Read: 0, Write: 0, Readdir: 0, MountPerMin: 0},
		{Name: "zero-global", G: 0, IPRate: 1, IPBurst: 1, ConnRate: 1, ConnBurst: 1, Read: 1, Write: 1, Readdir: 1, MountPerMin: 1},
		{Name: "zero-ip-rate", G: 4, IPRate: 0, IPBurst: 1, ConnRate: 2, ConnBurst: 2, Read: 1, Write: 1, Readdir: 1, MountPerMin: 7},
	}
	if prop == "C19" {
		return []rlCfg{base[0], base[3], {Name: "abuser", G: 4, IPRate: 1, IPBurst: 1, ConnRate: 4, ConnBurst: 4}, {Name: "abuser-conn", G: 2, IPRate: 8, IPBurst: 8, ConnRate: 1, ConnBurst: 1}}
	}
	return base
}

func rlRun(c *vCtx, prop string) {
	depth := 5
	if c.thorough() {
		depth = 7
	}
	if prop == "C19" {
		depth++
	}
	ops := rlAlphabet(prop)
	for i, cfg := range rlConfigs(prop) {
		eng := &vHist[*rlState, rlOp]{
			New:     func() *rlState { return rlNew(cfg, prop, c) },
			Apply:   func(s *rlState, op rlOp, check bool, hist []rlOp) { s.apply(op, check, hist) },
			Enabled: func(s *rlState) []rlOp { return ops },
			Key: func(s *rlState) string {
				return fmt.Sprintf("%d|%v|%s|%s", s.now, s.diverged, s.ref.key(), s.impl.key())
			},
		}
		_ = i
		st, tr, _ := eng.run(c, depth)
		c.res.States += st
		c.res.Transitions += tr
		c.res.Traces += tr
		c.sample(map[string]any{"config": cfg, "depth": depth, "alphabet": len(ops), "states": st, "transitions": tr})
	}
	c.res.Bounds["depth"] = depth
}

func rlReplay(c *vCtx, prop string, raw json.RawMessage) {
	var cs struct {
		Cfg  rlCfg  `json:"cfg"`
		Hist []rlOp `json:"hist"`
	}
	vMust(json.Unmarshal(raw, &cs), "case")
	s := rlNew(cs.Cfg, prop, c)
	for i, op := range cs.Hist {
		s.apply(op, i == len(cs.Hist)-1, cs.Hist[:i])
	}
}

func init() {
	for _, prop := range []string{"C18", "C19"} {
		prop := prop
		rule := "breadth-first search over event sequences {advance 250ms/500ms/1s/6s, request(ip in {A,B}, connection in {a1,a2,b1}), operation(ip, type in {read_large, write_large, readdir, mount})} on the virtual clock, depth 5 (thorough 7), for 6 limiter configurations (each limiter binding in turn, zero and fractional rates), per-operation buckets pre-drained to one token; states deduplicated on (clock, exact bucket contents). Every decision of the real RateLimiter is compared with exact integer token buckets: no admission with less than one token in any applicable bucket; no refusal when every applicable bucket has a token; identical decisions from a twin whose idle-limiter cleanup runs at every call."
		if prop == "C19" {
			rule = "same search as C18 (depth 6, thorough 8) with configurations in which client A exceeds its own per-IP / per-connection limit while client B stays within its limits; the reference model charges the global bucket only for admitted requests; every request it admits must be admitted by the real limiter."
		}
		var also []string
		if prop == "C18" {
			also = []string{"C18.conc"}
		}
		vRegister(&vCheck{
			id: prop, level: "model_checking", flavour: "vtime", also: also,
			shards: func(string) int { return 12 },
			rule:   rule,
			assumptions: []string{"a decision taken with a bucket within 1e-6 token of the threshold is not judged (the implementation uses float64)",
				"after the first disagreement the token accounting of implementation and model is no longer comparable; later decisions of that history are not judged"},
			run:    func(c *vCtx) { rlRun(c, prop) },
			replay: func(c *vCtx, raw json.RawMessage) { rlReplay(c, prop, raw) },
		})
	}
}
