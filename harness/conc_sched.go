package absnfs

// Scenario bodies that only exist in the sched flavour (they touch shim-only
// APIs). Request-level worlds for C16 / C29, the sched-aware connection for
// C16's rate-limit clause and C17, and the cache scenarios of C21.

import (
	"encoding/binary"
	"fmt"
	"io"
	"net"
	"os"
	"sort"
	"strings"
	"time"

	"github.com/absfs/absnfs/internal/verif/recfs"
	"github.com/absfs/absnfs/internal/verif/vsched"
	"github.com/absfs/absnfs/internal/verif/vstime"
	"github.com/absfs/absnfs/internal/verif/wire"
)

// ------------------------------------------------------------ request world

type rqEvent struct {
	kind string // start end backend update-start update-return
	who  string
	op   string
	mut  bool
	pol  *PolicyOptions
}

type rqReply struct {
	done    bool
	err     string
	denied  bool
	status  uint32
	summary string
}

type rqWorld struct {
	e        *vEnv
	root     uint64
	h        map[string]uint64
	events   []rqEvent
	replies  map[string]*rqReply
	sizes    map[string]map[int64]bool // path -> sizes the backend file had
	observe  bool
}

// rqNew builds a server inside the scheduler in set-up mode (no alternatives).
func rqNew(opts ExportOptions, plant func(fs *recfs.FS), lookups ...string) *rqWorld {
	vsched.SetQuiet(true)
	defer vsched.SetQuiet(false)
	if opts.MaxWorkers == 0 {
		opts.MaxWorkers = 1
	}
	e, err := vNewEnv(opts, plant)
	vMust(err, "env")
	w := &rqWorld{e: e, h: map[string]uint64{}, replies: map[string]*rqReply{}, sizes: map[string]map[int64]bool{}}
	w.root, err = e.mnt("/")
	vMust(err, "mnt")
	w.h["/"] = w.root
	for _, p := range lookups {
		dir, name := "/", strings.TrimPrefix(p, "/")
		if i := strings.LastIndexByte(p, '/'); i > 0 {
			dir, name = p[:i], p[i+1:]
		}
		hh, err := e.lookupFH(w.h[dir], name)
		vMust(err, "lookup "+p)
		w.h[p] = hh
	}
	w.noteSizes()
	e.fs.Hook = func(op *recfs.Op) error {
		// every backend call is a visible operation, tagged with its request and the live policy
		vsched.Point(&vsched.Op{Kind: "backend", Obj: op.Name})
		w.events = append(w.events, rqEvent{kind: "backend", who: vsched.CurrentOrigin(), op: op.Name + " " + op.Path, mut: op.Mut, pol: e.nfs.policy.Peek()})
		return nil
	}
	e.fs.Done = func(op *recfs.Op) {
		if op.Mut {
			w.noteSizes()
		}
	}
	return w
}

func (w *rqWorld) noteSizes() {
	for _, n := range w.e.fs.Dump() {
		if n.Kind == "f" {
			if w.sizes[n.Path] == nil {
				w.sizes[n.Path] = map[int64]bool{}
			}
			w.sizes[n.Path][n.Size] = true
		}
	}
}

func (w *rqWorld) ev(kind, who string) {
	w.events = append(w.events, rqEvent{kind: kind, who: who})
}

// request runs one NFS call in a named thread and records a reply summary.
func (w *rqWorld) request(name string, proc uint32, args []byte, summarize func(res *wire.NFSRes) string) {
	rp := &rqReply{}
	w.replies[name] = rp
	vsched.GoNamed(name, func() {
		w.call(name, rp, proc, args, summarize)
	})
}

func (w *rqWorld) call(name string, rp *rqReply, proc uint32, args []byte, summarize func(res *wire.NFSRes) string) {
	who := vsched.CurrentName()
	w.ev("start", who)
	vsched.Advance(time.Microsecond) // minimal-TTL cache entries of the set-up have expired: the request goes to the backend
	// a private client (own xid counter) so that threads do not share harness state
	xid := uint32(0x5000 + len(w.events))
	msg := wire.Call(xid, wire.ProgNFS, 3, proc, w.e.cred, args)
	rb, err := w.e.rawCall(msg)
	w.ev("end", who)
	rp.done = true
	if err != nil {
		rp.err = err.Error()
		rp.summary = "error:" + err.Error()
		return
	}
	r, perr := wire.ParseReply(rb)
	if perr != nil || r.Xid != xid {
		rp.err = fmt.Sprintf("malformed reply: %v", perr)
		rp.summary = "malformed"
		return
	}
	if r.Denied {
		rp.denied = true
		rp.summary = "denied"
		return
	}
	if r.AcceptStat != 0 {
		rp.summary = fmt.Sprintf("accept_stat=%d", r.AcceptStat)
		return
	}
	res, derr := wire.DecodeNFS(proc, r.Result)
	if res == nil || derr != nil {
		rp.err = fmt.Sprintf("result does not decode: %v", derr)
		rp.summary = "malformed-result"
		return
	}
	rp.status = res.Status
	rp.summary = wire.StatName(res.Status)
	if summarize != nil {
		if x := summarize(res); x != "" {
			rp.summary += ":" + x
		}
	}
}

// trace renders the event log compactly (for violation messages).
func (w *rqWorld) trace() string {
	var parts []string
	for _, e := range w.events {
		switch e.kind {
		case "backend":
			parts = append(parts, e.who+":"+e.op)
		default:
			parts = append(parts, e.who+":"+e.kind)
		}
	}
	return strings.Join(parts, " | ")
}

func (w *rqWorld) idx(kind, whoPrefix string) int {
	for i, e := range w.events {
		if e.kind == kind && strings.HasPrefix(e.who, whoPrefix) {
			return i
		}
	}
	return -1
}

func (w *rqWorld) lastIdx(kind, whoPrefix string) int {
	for i := len(w.events) - 1; i >= 0; i-- {
		if w.events[i].kind == kind && strings.HasPrefix(w.events[i].who, whoPrefix) {
			return i
		}
	}
	return -1
}

func writeArgs(h uint64, off uint64, data string) []byte {
	var a wire.Enc
	a.FH(h).U64(off).U32(uint32(len(data))).U32(2).Opaque([]byte(data))
	return a.B
}

// ------------------------------------------------------------ C16

func c16Plant(fs *recfs.FS) {
	f, _ := fs.Create("/f")
	f.Write([]byte("0123"))
	f.Close()
}

// c16Judge evaluates the drain-and-swap oracles on an event trace.
func c16Judge(w *rqWorld, res *vsched.Result, updaters []string, requests []string, wantAfter map[string]string) (string, []vScnBad) {
	var bad []vScnBad
	for _, p := range res.Panics {
		bad = append(bad, vScnBad{"panic", p})
	}
	if b := vNamedBlocked(res, "upd"); len(b) > 0 {
		bad = append(bad, vScnBad{"update-never-returns", fmt.Sprintf("the policy update is blocked forever: %v", b)})
	}
	if b := vNamedBlocked(res, "req"); len(b) > 0 {
		bad = append(bad, vScnBad{"request-never-returns", fmt.Sprintf("%v", b)})
	}
	// (1) one policy per request
	seen := map[string]map[*PolicyOptions]bool{}
	for _, e := range w.events {
		if e.kind == "backend" && strings.HasPrefix(e.who, "req") {
			if seen[e.who] == nil {
				seen[e.who] = map[*PolicyOptions]bool{}
			}
			seen[e.who][e.pol] = true
		}
	}
	for who, m := range seen {
		if len(m) > 1 {
			bad = append(bad, vScnBad{"request-sees-two-policies", fmt.Sprintf("%s performed backend calls under %d different policy snapshots", who, len(m))})
		}
	}
	// (2) once an update has returned, no request admitted earlier is still working in the backend:
	// every backend call after the LAST update-return must belong to a request that started after it
	last := -1
	for i, e := range w.events {
		if e.kind == "update-return" {
			last = i
		}
	}
	if last >= 0 {
		for i := last + 1; i < len(w.events); i++ {
			e := w.events[i]
			if e.kind != "backend" || !strings.HasPrefix(e.who, "req") {
				continue
			}
			if st := w.idx("start", e.who); st >= 0 && st < last {
				bad = append(bad, vScnBad{"old-request-still-executing-after-update-returned",
					fmt.Sprintf("%s (started before the update returned) issued backend call %q after the update had returned", e.who, e.op)})
				break
			}
		}
		// while read-only is in force no modifying backend call may start
		if pol := w.e.nfs.policy.Peek(); pol != nil && pol.ReadOnly {
			for i := last + 1; i < len(w.events); i++ {
				if e := w.events[i]; e.kind == "backend" && e.mut {
					bad = append(bad, vScnBad{"backend-modified-under-read-only", fmt.Sprintf("%s issued %q after the read-only policy was in force", e.who, e.op)})
					break
				}
			}
		}
	}
	// (3) a retry-later reply only for requests that overlapped an update
	var parts []string
	for _, rq := range requests {
		rp := w.replies[rq]
		if rp == nil {
			continue
		}
		parts = append(parts, rq+"="+rp.summary)
		if rp.status == 10008 {
			st, en := w.idx("start", rq), w.lastIdx("end", rq)
			overl := false
			for _, u := range updaters {
				us, ue := w.idx("update-start", u), w.lastIdx("update-return", u)
				if us >= 0 && st < ueOr(ue, len(w.events)) && us < en {
					overl = true
				}
			}
			if !overl {
				// not a clause of the property (it only says that mid-drain requests get a retry-later
				// reply): observed, shown in the outcome, not judged
				parts = append(parts, rq+":jukebox-without-overlapping-update")
			}
		}
		if rp.err != "" && !strings.Contains(rp.err, "timed out") {
			bad = append(bad, vScnBad{"reply-malformed-or-missing", rq + ": " + rp.err})
		}
		if want, ok := wantAfter[rq]; ok && rp.done && !strings.Contains(rp.err, "timed out") && rp.summary != want && !strings.HasPrefix(rp.summary, want) {
			bad = append(bad, vScnBad{"request-after-update-judged-by-old-policy|got=" + strings.SplitN(rp.summary, ":", 2)[0],
				fmt.Sprintf("%s was sent after the update had returned and replied %q; under the new policy it must reply %q", rq, rp.summary, want)})
		}
	}
	sort.Strings(parts)
	return strings.Join(parts, " "), bad
}

func ueOr(v, d int) int {
	if v < 0 {
		return d
	}
	return v
}

func c16Scenarios(thorough bool) []vScn {
	mk := func(name string, opts ExportOptions, body func(w *rqWorld) (updaters, requests []string, wantAfter map[string]string)) vScn {
		// horizon below the 1 h operation timeouts of the environment: only timers a scenario
		// configures itself (S4: DefaultTimeout 1 s) can fire, at quiescence or early; an
		// operation timeout is answered JUKEBOX too and would blur the drain clause
		return vScn{name: name, horizon: 30 * time.Minute, build: func() (func(), func(*vsched.Result) (string, []vScnBad)) {
			var w *rqWorld
			var ups, reqs []string
			var want map[string]string
			root := func() {
				w = rqNew(opts, c16Plant, "/f")
				ups, reqs, want = body(w)
			}
			judge := func(res *vsched.Result) (string, []vScnBad) {
				if w == nil {
					return "setup-failed", []vScnBad{{"setup-failed", "scenario set-up did not complete"}}
				}
				return c16Judge(w, res, ups, reqs, want)
			}
			return root, judge
		}}
	}
	update := func(w *rqWorld, name string, mut func(p *PolicyOptions), after func()) {
		vsched.GoNamed(name, func() {
			who := vsched.CurrentName()
			w.ev("update-start", who)
			p := *w.e.nfs.policy.Peek()
			mut(&p)
			if err := w.e.nfs.UpdatePolicyOptions(p); err != nil {
				w.ev("update-error:"+err.Error(), who)
			}
			w.ev("update-return", who)
			if after != nil {
				after()
			}
		})
	}
	// the same through UpdateExportOptions (tuning and policy in one call)
	updateExport := func(w *rqWorld, name string, mut func(o *ExportOptions), after func()) {
		vsched.GoNamed(name, func() {
			who := vsched.CurrentName()
			w.ev("update-start", who)
			o := w.e.nfs.GetExportOptions()
			mut(&o)
			if err := w.e.nfs.UpdateExportOptions(o); err != nil {
				w.ev("update-error:"+err.Error(), who)
			}
			w.ev("update-return", who)
			if after != nil {
				after()
			}
		})
	}
	base := ExportOptions{AttrCacheTimeout: 1}
	scns := []vScn{
		mk("S1-write-vs-readonly", base, func(w *rqWorld) ([]string, []string, map[string]string) {
			w.request("reqA", wire.WRITE, writeArgs(w.h["/f"], 0, "AB"), nil)
			update(w, "updU", func(p *PolicyOptions) { p.ReadOnly = true }, func() {
				rp := &rqReply{}
				w.replies["reqB"] = rp
				w.call("reqB", rp, wire.WRITE, writeArgs(w.h["/f"], 2, "CD"), nil)
			})
			return []string{"updU"}, []string{"reqA", "reqB"}, map[string]string{"reqB": "ROFS"}
		}),
		mk("S2-lookup-vs-allowedips", base, func(w *rqWorld) ([]string, []string, map[string]string) {
			var a wire.Enc
			a.FH(w.root).Str("f")
			w.request("reqA", wire.LOOKUP, a.B, nil)
			update(w, "updU", func(p *PolicyOptions) { p.AllowedIPs = []string{"192.0.2.1"} }, func() {
				rp := &rqReply{}
				w.replies["reqB"] = rp
				w.call("reqB", rp, wire.LOOKUP, a.B, nil)
			})
			return []string{"updU"}, []string{"reqA", "reqB"}, map[string]string{"reqB": "denied"}
		}),
		mk("S4-timeout-vs-readonly", ExportOptions{AttrCacheTimeout: 1, Timeouts: &TimeoutConfig{DefaultTimeout: time.Second, ReadTimeout: time.Hour, WriteTimeout: time.Hour,
			LookupTimeout: time.Hour, ReaddirTimeout: time.Hour, CreateTimeout: time.Hour, RemoveTimeout: time.Hour, RenameTimeout: time.Hour, HandleTimeout: time.Hour}},
			func(w *rqWorld) ([]string, []string, map[string]string) {
				w.request("reqA", wire.WRITE, writeArgs(w.h["/f"], 0, "AB"), nil)
				update(w, "updU", func(p *PolicyOptions) { p.ReadOnly = true }, nil)
				return []string{"updU"}, []string{"reqA"}, nil
			}),
	}
	s6 := mk("S6-write-vs-updateexportoptions", base, func(w *rqWorld) ([]string, []string, map[string]string) {
		w.request("reqA", wire.WRITE, writeArgs(w.h["/f"], 0, "AB"), nil)
		updateExport(w, "updU", func(o *ExportOptions) { o.ReadOnly = true; o.AttrCacheSize = 7; o.MaxWorkers = 2 }, func() {
			rp := &rqReply{}
			w.replies["reqB"] = rp
			w.call("reqB", rp, wire.WRITE, writeArgs(w.h["/f"], 2, "CD"), nil)
		})
		return []string{"updU"}, []string{"reqA", "reqB"}, map[string]string{"reqB": "ROFS"}
	})
	s6.capD = 2 // the tuning side effects (cache and pool resizing) triple the scheduling points
	scns = append(scns, s6)
	if thorough {
		scns = append(scns, mk("S3-two-updates", base, func(w *rqWorld) ([]string, []string, map[string]string) {
			w.request("reqA", wire.WRITE, writeArgs(w.h["/f"], 0, "AB"), nil)
			update(w, "updU1", func(p *PolicyOptions) { p.ReadOnly = true }, nil)
			update(w, "updU2", func(p *PolicyOptions) { p.Secure = false; p.ReadOnly = true }, nil)
			return []string{"updU1", "updU2"}, []string{"reqA"}, nil
		}))
	}
	// S7: a tuning update (worker count, cache sizes) while a connection has a call in the
	// worker pool: the call is answered exactly once, the connection survives, the next call too
	s7 := vScn{name: "S7-connection-call-vs-tuning-update", horizon: 30 * time.Minute, capD: 2, build: func() (func(), func(*vsched.Result) (string, []vScnBad)) {
		var got []string
		finished := false
		root := func() {
			vsched.SetQuiet(true)
			e, err := vNewEnv(ExportOptions{AttrCacheTimeout: 1, MaxWorkers: 1}, c16Plant)
			vMust(err, "env")
			rootFH, err := e.mnt("/")
			vMust(err, "mnt")
			vsched.SetQuiet(false)
			conn := newSConn("10.0.0.1", 900)
			vsched.GoNamed("conn", func() { e.srv.handleConnectionWithRecordMarking(conn, e.h) })
			vsched.GoNamed("updU", func() {
				e.nfs.UpdateTuningOptions(func(t *TuningOptions) { t.MaxWorkers, t.AttrCacheSize, t.DirCacheMaxEntries = 2, 5, 3 })
			})
			vsched.GoNamed("client", func() {
				var a wire.Enc
				a.FH(rootFH).Str("f")
				for x := uint32(1); x <= 2; x++ {
					conn.feed(wire.Record(wire.Call(x, wire.ProgNFS, 3, wire.LOOKUP, vCredSys(0, 0, nil), a.B)))
					rec, ok := conn.reply()
					switch rp, err := wire.ParseReply(rec); {
					case !ok:
						got = append(got, "connection-closed")
					case err != nil || rp.Xid != x:
						got = append(got, "malformed")
					case rp.Denied || rp.AcceptStat != 0:
						got = append(got, "rpc-error")
					default:
						if res, derr := wire.DecodeNFS(wire.LOOKUP, rp.Result); derr != nil || res == nil {
							got = append(got, "malformed-result")
						} else {
							got = append(got, wire.StatName(res.Status))
						}
					}
				}
				conn.closeClient()
				finished = true
			})
		}
		judge := func(res *vsched.Result) (string, []vScnBad) {
			var bad []vScnBad
			for _, p := range res.Panics {
				bad = append(bad, vScnBad{"panic", p})
			}
			out := strings.Join(got, ",")
			if !finished && !c17EarlyTimer(res) {
				bad = append(bad, vScnBad{"call-never-answered-during-tuning-update", fmt.Sprintf("the client is blocked forever (replies so far: %s; blocked: %v)", out, res.Blocked)})
				return "blocked", bad
			}
			if b := vNamedBlocked(res, "updU", "conn"); len(b) > 0 {
				bad = append(bad, vScnBad{"update-or-connection-handler-blocks-forever", fmt.Sprintf("%v", b)})
			}
			if out != "OK,OK" && !c17EarlyTimer(res) { // an early read deadline legitimately ends the connection
				bad = append(bad, vScnBad{"call-not-served-during-tuning-update", "two LOOKUPs on one connection during UpdateTuningOptions were answered: " + out})
			}
			return out, bad
		}
		return root, judge
	}}
	scns = append(scns, s7)
	// S8: rate limiting is switched on while a request holds the update in its drain; a call
	// that arrives on another open connection after the drain began can only be admitted
	// after the update, so the new limiter must judge it
	scns = append(scns, vScn{name: "S8-ratelimit-enabled-while-call-arrives-mid-drain", horizon: 30 * time.Minute, capD: 2, build: func() (func(), func(*vsched.Result) (string, []vScnBad)) {
		var summaries []string
		var problem string
		finished := false
		root := func() {
			vsched.SetQuiet(true)
			e, err := vNewEnv(ExportOptions{AttrCacheTimeout: 1, MaxWorkers: 1}, c16Plant)
			vMust(err, "env")
			rootFH, err := e.mnt("/")
			vMust(err, "mnt")
			gate := vsched.NewChan[struct{}](1)
			held, armed := false, false
			e.fs.Hook = func(op *recfs.Op) error {
				if !held && armed { // the first backend call of R1 (the only request in flight) waits for the harness
					held = true
					gate.Recv()
				}
				return nil
			}
			vsched.SetQuiet(false)
			armed = true
			connA, connB := newSConn("10.0.0.1", 900), newSConn("10.0.0.2", 901)
			vsched.GoNamed("connA", func() { e.srv.handleConnectionWithRecordMarking(connA, e.h) })
			vsched.GoNamed("connB", func() { e.srv.handleConnectionWithRecordMarking(connB, e.h) })
			callB := func(xid uint32) string {
				rec, ok := connB.reply()
				if !ok {
					return "connection-closed"
				}
				rp, err := wire.ParseReply(rec)
				if err != nil || rp.Xid != xid {
					return "malformed"
				}
				if rp.Denied {
					return "denied"
				}
				return fmt.Sprintf("accepted(%d)", rp.AcceptStat)
			}
			vsched.GoNamed("driver", func() {
				vsched.Advance(time.Microsecond)
				var a wire.Enc
				a.FH(rootFH).Str("f")
				connA.feed(wire.Record(wire.Call(1, wire.ProgNFS, 3, wire.LOOKUP, vCredSys(0, 0, nil), a.B)))
				vsched.SleepQuiescent(time.Millisecond) // R1 is inside the backend, holding its admission
				if !held { // only when a timer was fired early (connection A timed out before R1 ran): nothing to judge
					summaries = append(summaries, "r1-never-ran")
					finished = true
					gate.SendNoPoint(struct{}{})
					return
				}
				vsched.GoNamed("updU", func() {
					cfg := RateLimiterConfig{GlobalRequestsPerSecond: 1000, PerIPRequestsPerSecond: 0, PerIPBurstSize: 1, CleanupInterval: time.Hour}
					p := *e.nfs.policy.Peek()
					p.EnableRateLimiting, p.RateLimitConfig = true, &cfg
					if err := e.nfs.UpdatePolicyOptions(p); err != nil {
						problem = err.Error()
					}
				})
				vsched.SleepQuiescent(time.Millisecond) // the update is draining
				connB.feed(wire.Record(wire.Call(2, wire.ProgNFS, 3, 0, vCredSys(0, 0, nil), nil)))
				vsched.SleepQuiescent(time.Millisecond) // R2 (NULL has no retry-later form) waits for the update
				gate.Send(struct{}{})
				summaries = append(summaries, callB(2))
				for x := uint32(3); x <= 4; x++ {
					connB.feed(wire.Record(wire.Call(x, wire.ProgNFS, 3, 0, vCredSys(0, 0, nil), nil)))
					summaries = append(summaries, callB(x))
				}
				connA.reply()
				connA.closeClient()
				connB.closeClient()
				finished = true
			})
		}
		judge := func(res *vsched.Result) (string, []vScnBad) {
			var bad []vScnBad
			out := strings.Join(summaries, ",")
			if problem != "" {
				bad = append(bad, vScnBad{"update-fails", problem})
			}
			for _, p := range res.Panics {
				bad = append(bad, vScnBad{"panic", p})
			}
			if !finished && problem == "" && !c17EarlyTimer(res) {
				bad = append(bad, vScnBad{"call-never-answered-around-ratelimit-update", fmt.Sprintf("the client is blocked forever (replies so far: %s; blocked: %v)", out, res.Blocked)})
				return "blocked", bad
			}
			// burst 1, rate 0, the clock stands still: R2 arrived after the drain began, so R2..R4 are
			// all admitted after the update and at most one of them may pass the new limiter
			admitted := 0
			for _, s := range summaries {
				if strings.HasPrefix(s, "accepted") {
					admitted++
				}
			}
			if admitted > 1 {
				bad = append(bad, vScnBad{"call-arriving-mid-drain-escapes-new-rate-limit", fmt.Sprintf("rate limiting (per-IP burst 1, rate 0) was enabled while a request held the drain; %d of the 3 calls that arrived on another open connection after the drain began were admitted: %s", admitted, out)})
			}
			return out, bad
		}
		return root, judge
	}})
	// S5: rate limiting switched on at runtime must bind connections that were already open
	scns = append(scns, vScn{name: "S5-ratelimit-on-open-connection", horizon: time.Hour, build: func() (func(), func(*vsched.Result) (string, []vScnBad)) {
		var summaries []string
		var problem string
		root := func() {
			vsched.SetQuiet(true) // sequential clause: a single deterministic execution
			e, err := vNewEnv(ExportOptions{AttrCacheTimeout: 1, MaxWorkers: 1}, c16Plant)
			vMust(err, "env")
			conn := newSConn("10.0.0.1", 900)
			vsched.GoNamed("conn", func() { e.srv.handleConnectionWithRecordMarking(conn, e.h) })
			callN := func(xid uint32) string {
				conn.feed(wire.Record(wire.Call(xid, wire.ProgNFS, 3, 0, vCredSys(0, 0, nil), nil)))
				rec, ok := conn.reply()
				if !ok {
					return "connection-closed"
				}
				rp, err := wire.ParseReply(rec)
				if err != nil || rp.Xid != xid {
					return "malformed"
				}
				if rp.Denied {
					return "denied"
				}
				return fmt.Sprintf("accepted(%d)", rp.AcceptStat)
			}
			summaries = append(summaries, callN(1))
			cfg := RateLimiterConfig{GlobalRequestsPerSecond: 1000, PerIPRequestsPerSecond: 0, PerIPBurstSize: 1, CleanupInterval: time.Hour}
			p := *e.nfs.policy.Peek()
			p.EnableRateLimiting, p.RateLimitConfig = true, &cfg
			if err := e.nfs.UpdatePolicyOptions(p); err != nil {
				problem = err.Error()
			}
			for x := uint32(2); x <= 4; x++ {
				summaries = append(summaries, callN(x))
			}
			conn.closeClient()
		}
		judge := func(res *vsched.Result) (string, []vScnBad) {
			var bad []vScnBad
			out := strings.Join(summaries, ",")
			if problem != "" {
				bad = append(bad, vScnBad{"update-fails", problem})
			}
			for _, p := range res.Panics {
				bad = append(bad, vScnBad{"panic", p})
			}
			// burst 1, rate 0, clock held still: of the three calls after the update at most one is admitted
			admitted := 0
			for _, s := range summaries[1:] {
				if strings.HasPrefix(s, "accepted") {
					admitted++
				}
			}
			if len(summaries) == 4 && admitted > 1 {
				bad = append(bad, vScnBad{"rate-limit-not-applied-to-open-connection", fmt.Sprintf("rate limiting (burst 1, rate 0) was enabled by UpdatePolicyOptions, yet the connection opened earlier had %d of 3 further calls admitted: %s", admitted, out)})
			}
			return out, bad
		}
		return root, judge
	}})
	return scns
}

// ------------------------------------------------------------ sched-aware connection

type sAddr struct {
	ip   string
	port int
}

// sConn is a net.Conn whose blocking is visible to the scheduler.
type sConn struct {
	in         *vsched.Chan[[]byte]
	out        *vsched.Chan[[]byte]
	buf        []byte
	closed     bool
	remote     net.Addr
	wbuf       []byte
	rdl        time.Time // read deadline (virtual clock)
	accepted   bool      // handed to the server by Accept
	serving    bool      // the server has started reading it and has not closed it
	everServed bool
	dataRead   bool // the server has consumed bytes the client sent
	onRead     func()
	onClose    func()
}

type sTimeout struct{}

func (sTimeout) Error() string   { return "i/o timeout" }
func (sTimeout) Timeout() bool   { return true }
func (sTimeout) Temporary() bool { return true }

func newSConn(ip string, port int) *sConn {
	return &sConn{in: vsched.NewChan[[]byte](64), out: vsched.NewChan[[]byte](64), remote: &net.TCPAddr{IP: net.ParseIP(ip), Port: port}}
}

func (c *sConn) feed(b []byte) {
	if !c.in.Closed() {
		c.in.SendOK(b)
	}
}
func (c *sConn) closeClient() {
	vsched.Yield()
	if !c.in.Closed() {
		c.in.CloseNoPoint()
	}
}

// reply returns the next complete record the server wrote.
func (c *sConn) reply() ([]byte, bool) {
	for {
		if len(c.wbuf) >= 4 {
			if rec, rest, err := c13Reassemble(c.wbuf); err == nil {
				c.wbuf = rest
				return rec, true
			}
		}
		b, ok := c.out.Recv2()
		if !ok {
			return nil, false
		}
		c.wbuf = append(c.wbuf, b...)
	}
}

func (c *sConn) Read(p []byte) (int, error) {
	if c.closed {
		return 0, net.ErrClosed
	}
	c.everServed = true
	if c.onRead != nil {
		c.onRead()
	}
	if len(c.buf) == 0 {
		var b []byte
		var ok bool
		if c.rdl.IsZero() {
			b, ok = c.in.Recv2()
		} else {
			d := c.rdl.Sub(vstime.Now())
			if d <= 0 {
				return 0, &net.OpError{Op: "read", Net: "tcp", Err: sTimeout{}}
			}
			tch := vsched.NewChan[struct{}](1)
			tm := vsched.AddTimer(d, "read-deadline", func() { tch.SendNoPoint(struct{}{}) })
			in, to := vsched.CaseRecv(c.in), vsched.CaseRecv(tch)
			if vsched.Select(false, in, to) == 1 {
				return 0, &net.OpError{Op: "read", Net: "tcp", Err: sTimeout{}}
			}
			tm.Stop()
			b, ok = in.Val, in.Ok
		}
		if c.closed {
			return 0, net.ErrClosed
		}
		if !ok {
			return 0, io.EOF
		}
		c.buf = b
	}
	n := copy(p, c.buf)
	c.buf = c.buf[n:]
	if n > 0 {
		c.dataRead = true
	}
	return n, nil
}

func (c *sConn) Write(p []byte) (int, error) {
	if c.closed {
		return 0, net.ErrClosed
	}
	if !c.out.SendOK(append([]byte(nil), p...)) {
		return 0, net.ErrClosed
	}
	return len(p), nil
}

func (c *sConn) Close() error {
	if !c.closed {
		c.closed = true
		if c.onClose != nil {
			c.onClose()
		}
		if !c.out.Closed() {
			c.out.CloseNoPoint()
		}
		if !c.in.Closed() {
			c.in.CloseNoPoint() // wakes a blocked Read, like closing a socket does
		}
	}
	return nil
}

// VerifOrder gives rewritten map iterations over connections a deterministic order.
func (c *sConn) VerifOrder() int {
	if t, ok := c.remote.(*net.TCPAddr); ok {
		return t.Port*256 + int(t.IP[len(t.IP)-1])
	}
	return 0
}

func (c *sConn) LocalAddr() net.Addr                { return &net.TCPAddr{IP: net.ParseIP("127.0.0.1"), Port: 2049} }
func (c *sConn) RemoteAddr() net.Addr               { return c.remote }
func (c *sConn) SetDeadline(t time.Time) error      { c.rdl = t; return nil }
func (c *sConn) SetReadDeadline(t time.Time) error  { c.rdl = t; return nil }
func (c *sConn) SetWriteDeadline(t time.Time) error { return nil }

// sListener is a net.Listener fed by the harness.
type sListener struct {
	conns  *vsched.Chan[net.Conn]
	closed bool
}

func newSListener() *sListener { return &sListener{conns: vsched.NewChan[net.Conn](16)} }

func (l *sListener) Accept() (net.Conn, error) {
	c, ok := l.conns.Recv2()
	if !ok || l.closed {
		if ok {
			c.Close() // the kernel resets connections that were queued when the listener closed
		}
		return nil, &net.OpError{Op: "accept", Net: "tcp", Err: fmt.Errorf("use of closed network connection")}
	}
	if sc, isS := c.(*sConn); isS {
		sc.accepted = true
	}
	return c, nil
}

// offer queues a connection for Accept; false when the listener is closed.
func (l *sListener) offer(c net.Conn) bool {
	if l.closed || l.conns.Closed() {
		return false
	}
	return l.conns.SendOK(c)
}

func (l *sListener) Close() error {
	if !l.closed {
		l.closed = true
		for l.conns.Len() > 0 { // connections still in the backlog are reset
			if c, ok := l.conns.RecvNoPoint(); ok {
				c.Close()
			}
		}
		l.conns.CloseNoPoint()
	}
	return nil
}

func (l *sListener) Addr() net.Addr { return &net.TCPAddr{IP: net.ParseIP("127.0.0.1"), Port: 2049} }

var _ = binary.BigEndian
var _ = os.ErrClosed
