package absnfs

// C26 — directory listings page completely and respect the client's size limit.
// Complete enumeration of count/maxcount values over directories with names
// of every length; each (directory, procedure, count) is a paging session that
// follows cookies to eof.

import (
	"encoding/json"
	"fmt"
	"sort"
	"strings"

	"github.com/absfs/absnfs/internal/verif/recfs"
	"github.com/absfs/absnfs/internal/verif/wire"
)

type c26Case struct {
	Lens  []int  `json:"name_lengths"`
	Plus  bool   `json:"readdirplus"`
	Count uint32 `json:"count"`
	Dir   uint32 `json:"dircount,omitempty"`
	Start uint64 `json:"start_cookie,omitempty"`
}

type c26World struct {
	e     *vEnv
	root  uint64
	names []string
	fid   map[string]uint64
}

func c26Names(lens []int) []string {
	var out []string
	for i, n := range lens {
		// distinct names of the requested length: a prefix letter sequence then padding
		base := fmt.Sprintf("%c", 'a'+i%26)
		if n >= 2 {
			base = fmt.Sprintf("%c%c", 'a'+i%26, 'a'+(i/26)%26)
		}
		if len(base) > n {
			base = base[:n]
		}
		out = append(out, base+strings.Repeat("x", n-len(base)))
	}
	return out
}

func c26Setup(lens []int) *c26World {
	names := c26Names(lens)
	e, err := vNewEnv(ExportOptions{AttrCacheTimeout: 1}, func(fs *recfs.FS) {
		for i, n := range names {
			if i%3 == 2 {
				vMust(fs.Mkdir("/"+n, 0o755), "mkdir")
				continue
			}
			f, err := fs.Create("/" + n)
			vMust(err, "create")
			f.Close()
		}
	})
	vMust(err, "env")
	w := &c26World{e: e, names: names, fid: map[string]uint64{}}
	w.root, err = e.mnt("/")
	vMust(err, "mnt")
	for _, n := range names {
		res, err := e.lookup(w.root, n)
		if err != nil || res.Status != 0 || res.Attr == nil {
			vMust(fmt.Errorf("%v %+v", err, res), "lookup "+n)
		}
		w.fid[n] = res.Attr.Fileid
	}
	return w
}

func pad4(n int) int { return (n + 3) &^ 3 }

func c26Session(c *vCtx, w *c26World, cs c26Case) {
	c.beat(func() any { return cs })
	c.res.Evaluations++
	proc := uint32(wire.READDIR)
	pn := "READDIR"
	entryFixed := 24
	if cs.Plus {
		proc, pn, entryFixed = wire.READDIRPLUS, "READDIRPLUS", 24+88+16
	}
	const header = 104
	expected := append([]string(nil), w.names...)
	sort.Strings(expected)
	seen := map[string]int{}
	var order []string
	cookie := cs.Start
	verf := make([]byte, 8)
	sawEOF := false
	for call := 0; call < len(w.names)+3; call++ {
		var a wire.Enc
		a.FH(w.root).U64(cookie).Raw(verf)
		if cs.Plus {
			a.U32(cs.Dir).U32(cs.Count)
		} else {
			a.U32(cs.Count)
		}
		res, rp, err := w.e.nfsCall(proc, a.B)
		if err != nil || res == nil {
			c.violation(fmt.Sprintf("C26|call-failed|proc=%s", pn), fmt.Sprintf("%v", err), cs)
			return
		}
		size := len(rp.Result) - 4
		if cs.Start != 0 {
			// foreign start cookies: only well-formedness (decoded above) is judged
			c.outcome(pn + ":start-cookie:" + wire.StatName(res.Status))
			return
		}
		remaining := 0
		firstLen := 0
		for _, n := range expected {
			if seen[n] == 0 {
				if remaining == 0 {
					firstLen = -1
				}
				remaining++
			}
		}
		// the first entry the server would send next: unknown order, so "fits" is judged with
		// the shortest and the longest remaining name
		minL, maxL := 1<<30, 0
		for _, n := range expected {
			if seen[n] == 0 {
				if len(n) < minL {
					minL = len(n)
				}
				if len(n) > maxL {
					maxL = len(n)
				}
			}
		}
		_ = firstLen
		fitsSome := remaining > 0 && header+entryFixed+pad4(minL) <= int(cs.Count)
		fitsAll := remaining > 0 && header+entryFixed+pad4(maxL) <= int(cs.Count)
		switch res.Status {
		case 0:
			if size > int(cs.Count) {
				lastFits := "over"
				if n := len(res.Entries); n > 0 {
					last := entryFixed + pad4(len(res.Entries[n-1].Name))
					if size-last <= int(cs.Count) {
						lastFits = "by-last-entry"
					}
					if n == 1 {
						lastFits = "first-entry-cannot-fit-but-no-TOOSMALL"
					}
				} else {
					lastFits = "empty-reply-header-cannot-fit-but-no-TOOSMALL"
				}
				c.violation(fmt.Sprintf("C26|reply-exceeds-count|proc=%s|how=%s", pn, lastFits),
					fmt.Sprintf("%s count=%d cookie=%d on names of lengths %v: %sresok is %d bytes with %d entries", pn, cs.Count, cookie, cs.Lens, pn, size, len(res.Entries)), cs)
			}
			if len(res.Entries) == 0 && remaining > 0 {
				if fitsAll {
					c.violation(fmt.Sprintf("C26|no-entry-returned-although-one-fits|proc=%s", pn),
						fmt.Sprintf("%s count=%d cookie=%d: no entry returned, %d remain and any of them fits", pn, cs.Count, cookie, remaining), cs)
				} else if !fitsSome && !res.EOF {
					c.violation(fmt.Sprintf("C26|toosmall-not-reported|proc=%s", pn),
						fmt.Sprintf("%s count=%d: no remaining entry fits but the reply is NFS3_OK with no entry instead of NFS3ERR_TOOSMALL", pn, cs.Count), cs)
				}
			}
			for _, en := range res.Entries {
				seen[en.Name]++
				order = append(order, en.Name)
				want, known := w.fid[en.Name]
				if !known {
					c.violation(fmt.Sprintf("C26|foreign-entry|proc=%s", pn), fmt.Sprintf("%s returned %q which is not in the directory", pn, en.Name), cs)
				} else if en.Fileid != want {
					c.violation(fmt.Sprintf("C26|entry-fileid-differs-from-lookup|proc=%s", pn),
						fmt.Sprintf("%s entry %q has fileid %d, LOOKUP reports %d", pn, en.Name, en.Fileid, want), cs)
				}
				cookie = en.Cookie
			}
			if res.EOF {
				sawEOF = true
			}
			if res.Verf != nil {
				verf = res.Verf
			}
		case 10005: // TOOSMALL
			if fitsAll {
				c.violation(fmt.Sprintf("C26|toosmall-although-an-entry-fits|proc=%s", pn), fmt.Sprintf("%s count=%d cookie=%d: TOOSMALL but every remaining entry fits", pn, cs.Count, cookie), cs)
			}
			c.outcome(pn + ":TOOSMALL")
			return
		default:
			c.violation(fmt.Sprintf("C26|listing-fails|proc=%s|status=%s", pn, wire.StatName(res.Status)), fmt.Sprintf("%s count=%d cookie=%d: %s", pn, cs.Count, cookie, wire.StatName(res.Status)), cs)
			return
		}
		if sawEOF || len(res.Entries) == 0 {
			break
		}
	}
	// completeness
	var dups, missing []string
	for _, n := range expected {
		switch {
		case seen[n] == 0:
			missing = append(missing, n)
		case seen[n] > 1:
			dups = append(dups, n)
		}
	}
	trunc := func(l []string) string {
		s := fmt.Sprintf("%d names", len(l))
		if len(l) > 0 {
			nm := l[0]
			if len(nm) > 12 {
				nm = nm[:12] + "..."
			}
			s += " e.g. " + nm
		}
		return s
	}
	if len(dups) > 0 {
		c.violation(fmt.Sprintf("C26|entry-listed-twice|proc=%s", pn), fmt.Sprintf("%s count=%d lengths %v: %s", pn, cs.Count, cs.Lens, trunc(dups)), cs)
	}
	if sawEOF && len(missing) > 0 {
		c.violation(fmt.Sprintf("C26|eof-before-all-entries|proc=%s", pn), fmt.Sprintf("%s count=%d lengths %v: eof with %s never listed", pn, cs.Count, cs.Lens, trunc(missing)), cs)
	}
	if !sawEOF && len(missing) == 0 {
		c.violation(fmt.Sprintf("C26|no-eof-after-last-entry|proc=%s", pn), fmt.Sprintf("%s count=%d: all entries listed but eof never set", pn, cs.Count), cs)
	}
	if !sawEOF && len(missing) > 0 {
		c.outcome(pn + ":stalled")
	} else {
		c.outcome(fmt.Sprintf("%s:complete", pn))
	}
}

func c26Dirs(thorough bool) [][]int {
	var dirs [][]int
	single := []int{1, 2, 3, 4, 5, 8, 100, 254, 255}
	if thorough {
		single = nil
		for n := 1; n <= 255; n++ {
			single = append(single, n)
		}
	}
	for _, n := range single {
		dirs = append(dirs, []int{n})
	}
	dirs = append(dirs, []int{}, []int{1, 1}, []int{3, 100}, []int{255, 255}, []int{1, 2, 3}, []int{4, 4, 4}, []int{100, 100, 100, 5},
		[]int{1, 2, 3, 4, 5, 8}, []int{8, 8, 8, 8, 8, 8, 8, 8}, []int{255, 1, 254, 2, 100, 3, 4, 5})
	if thorough {
		ls := []int{1, 2, 3, 4, 5, 8, 100, 254, 255}
		for i := range ls {
			for j := i; j < len(ls); j++ {
				dirs = append(dirs, []int{ls[i], ls[j]})
				for k := j; k < len(ls); k++ {
					dirs = append(dirs, []int{ls[i], ls[j], ls[k]})
				}
			}
		}
	}
	return dirs
}

func init() {
	vRegister(&vCheck{
		id: "C26", level: "exploration", flavour: "vtime",
		shards: func(string) int { return 16 },
		rule: "complete enumeration: directories {single entry of name length L for L in {1,2,3,4,5,8,100,254,255} (thorough: every L in 1..255), empty, 9 multi-entry directories mixing lengths up to 8 entries (thorough: all multisets of size 2 and 3 over 9 lengths)} x {READDIR, READDIRPLUS} x count/maxcount every value 0..700 and {1024,4096,8192,2^32-1} (READDIRPLUS dircount in {0, maxcount/2, maxcount}); each case is a paging session following the returned cookies to eof. Oracle: every READDIR3resok/READDIRPLUS3resok (reply body minus the status word) <= count or NFS3ERR_TOOSMALL when no remaining entry fits; at least one entry whenever any remaining entry fits; the concatenation is exactly the directory, each name once, fileid equal to LOOKUP's; eof at the end. Foreign start cookies {n, n+1, 2^64-1} are decoded strictly only. Non-trivial = sessions on non-empty directories.",
		assumptions: []string{"'fits' is judged with the shortest and the longest remaining name because the listing order is the server's choice", "dircount is varied but not judged"},
		run: func(c *vCtx) {
			dirs := c26Dirs(c.thorough())
			var counts []uint32
			for n := uint32(0); n <= 700; n++ {
				counts = append(counts, n)
			}
			counts = append(counts, 1024, 4096, 8192, 1<<32-1)
			for di, lens := range dirs {
				if !c.mine(di) {
					continue
				}
				w := c26Setup(lens)
				for _, plus := range []bool{false, true} {
					for _, cnt := range counts {
						dcs := []uint32{0}
						if plus && (cnt%97 == 0 || cnt > 700) {
							dcs = []uint32{0, cnt / 2, cnt}
						}
						for _, dc := range dcs {
							cs := c26Case{Lens: lens, Plus: plus, Count: cnt, Dir: dc}
							c26Session(c, w, cs)
							if len(lens) > 0 {
								c.res.Distinct++
							}
							if cnt == 300 && dc == 0 {
								c.sample(cs)
							}
						}
					}
					for _, st := range []uint64{uint64(len(lens)), uint64(len(lens)) + 1, 1<<64 - 1} {
						c26Session(c, w, c26Case{Lens: lens, Plus: plus, Count: 4096, Start: st})
					}
				}
				w.e.close()
			}
			c.res.Bounds["directories"] = len(dirs)
			c.res.Bounds["counts"] = len(counts)
		},
		replay: func(c *vCtx, raw json.RawMessage) {
			var cs c26Case
			vMust(json.Unmarshal(raw, &cs), "case")
			w := c26Setup(cs.Lens)
			defer w.e.close()
			c26Session(c, w, cs)
		},
	})
}
