// Package vctx is the scheduler-visible stand-in for package context in the
// sched flavour: Done() is a vsched channel and deadlines are virtual timers.
// (In absnfs no context value crosses the package boundary.)
package vctx

import (
	"context"
	"time"

	"github.com/absfs/absnfs/internal/verif/vsched"
)

var (
	Canceled         = context.Canceled
	DeadlineExceeded = context.DeadlineExceeded
)

type CancelFunc func()

// Context mirrors context.Context with a scheduler-visible Done channel.
type Context interface {
	Deadline() (time.Time, bool)
	Done() *vsched.Chan[struct{}]
	Err() error
	Value(key any) any
}

type ctx struct {
	parent   *ctx
	done     *vsched.Chan[struct{}]
	err      error
	children []*ctx
	timer    *vsched.Timer
	deadline time.Duration
	hasDL    bool
}

var background = &ctx{}

func Background() Context { return background }
func TODO() Context       { return background }

func (c *ctx) Deadline() (time.Time, bool) {
	if !c.hasDL {
		return time.Time{}, false
	}
	return time.Unix(0, 0).Add(c.deadline), true
}

func (c *ctx) Done() *vsched.Chan[struct{}] {
	if c == background {
		return nil // receiving from it blocks forever, like context.Background().Done()
	}
	return c.done
}

func (c *ctx) Err() error        { return c.err }
func (c *ctx) Value(key any) any { return nil }

func (c *ctx) cancel(err error) {
	if c.err != nil {
		return
	}
	c.err = err
	if !c.done.Closed() {
		closeQuietly(c.done)
	}
	if c.timer != nil {
		c.timer.Stop()
	}
	for _, ch := range c.children {
		ch.cancel(err)
	}
}

// closeQuietly closes without a scheduling point of its own when called from
// the scheduler (timer firing) and with one when called from a thread.
func closeQuietly(ch *vsched.Chan[struct{}]) {
	ch.CloseNoPoint()
}

func newChild(parent Context) *ctx {
	p, _ := parent.(*ctx)
	c := &ctx{parent: p, done: vsched.NewChan[struct{}]()}
	if p != nil && p != background {
		if p.err != nil {
			c.err = p.err
			c.done.CloseNoPoint()
		} else {
			p.children = append(p.children, c)
		}
		if p.hasDL {
			c.hasDL, c.deadline = true, p.deadline
		}
	}
	return c
}

func WithCancel(parent Context) (Context, CancelFunc) {
	c := newChild(parent)
	return c, func() {
		if vsched.Active() {
			vsched.Point(&vsched.Op{Kind: "ctx.cancel", Obj: "context"})
		}
		c.cancel(Canceled)
	}
}

func WithTimeout(parent Context, d time.Duration) (Context, CancelFunc) {
	c := newChild(parent)
	if c.err == nil {
		if d <= 0 {
			c.cancel(DeadlineExceeded)
		} else {
			c.hasDL, c.deadline = true, vsched.Now()+d
			c.timer = vsched.AddTimer(d, "ctx-timeout", func() { c.cancel(DeadlineExceeded) })
		}
	}
	return c, func() {
		if vsched.Active() {
			vsched.Point(&vsched.Op{Kind: "ctx.cancel", Obj: "context"})
		}
		c.cancel(Canceled)
	}
}

func WithDeadline(parent Context, t time.Time) (Context, CancelFunc) {
	return WithTimeout(parent, t.Sub(time.Unix(0, 0).Add(vsched.Now())))
}
