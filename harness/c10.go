package absnfs

// C10 — identity squashing maps every credential as configured.
// Complete product over uid/gid/aux lists/modes/flavors/body encodings at the
// ValidateAuthentication seam, plus an end-to-end slice through HandleCall
// where the effective identity is observed in the backend (MKDIR's chown) and
// in ACCESS decisions.

import (
	"encoding/binary"
	"encoding/json"
	"fmt"
	"strings"

	"github.com/absfs/absnfs/internal/verif/recfs"
	"github.com/absfs/absnfs/internal/verif/wire"
)

type c10Case struct {
	Seam    string   `json:"seam"` // validate | e2e
	Mode    string   `json:"mode"`
	Flavor  uint32   `json:"flavor"`
	UID     uint32   `json:"uid"`
	GID     uint32   `json:"gid"`
	Aux     []uint32 `json:"aux"`
	Body    string   `json:"body"` // wellformed | preparsed | prefix:<n> | trailing | name:<len>
	NameLen int      `json:"name_len,omitempty"`
}

// c10Expect: allowed?, uid, gid, aux (nil = not judged)
func c10Expect(cs c10Case) (allowed bool, uid, gid uint32, aux []uint32, auxJudged bool) {
	switch cs.Flavor {
	case 0:
		return true, 65534, 65534, nil, false
	case 1:
	default:
		return false, 0, 0, nil, false
	}
	uid, gid = cs.UID, cs.GID
	aux = append([]uint32{}, cs.Aux...)
	auxJudged = true
	switch strings.ToLower(cs.Mode) {
	case "all":
		uid, gid = 65534, 65534
		for i := range aux {
			aux[i] = 65534
		}
	case "root":
		if uid == 0 {
			uid, gid = 65534, 65534
		} else if gid == 0 {
			gid = 65534
		}
		for i := range aux {
			if aux[i] == 0 {
				aux[i] = 65534
			}
		}
	case "none", "":
	default:
		uid, gid = 65534, 65534
		auxJudged = false
	}
	return true, uid, gid, aux, auxJudged
}

func c10Validate(c *vCtx, cs c10Case) {
	c.beat(func() any { return cs })
	c.res.Evaluations++
	name := strings.Repeat("m", cs.NameLen)
	full := wire.AuthSys(9, name, cs.UID, cs.GID, cs.Aux)
	body := full
	ctx := &AuthContext{ClientIP: "10.0.0.1", ClientPort: 900, Credential: &RPCCredential{Flavor: cs.Flavor}}
	wellFormed := len(cs.Aux) <= 16 && cs.NameLen <= 8192
	var shared []uint32
	switch {
	case cs.Body == "preparsed":
		shared = append([]uint32{}, cs.Aux...)
		ctx.AuthSys = &AuthSysCredential{Stamp: 9, MachineName: name, UID: cs.UID, GID: cs.GID, AuxGIDs: shared}
		ctx.Credential.Body = full
	case strings.HasPrefix(cs.Body, "prefix:"):
		var n int
		fmt.Sscanf(cs.Body, "prefix:%d", &n)
		body = full[:n]
		wellFormed = false
		ctx.Credential.Body = body
	case strings.HasPrefix(cs.Body, "lenword:"):
		// a length word of the body (machine-name length / number of gids) replaced by a huge value
		var which string
		var v uint32
		fmt.Sscanf(strings.Replace(cs.Body[8:], "=", " ", 1), "%s %d", &which, &v)
		body = append([]byte{}, full...)
		off := 4 // machine-name length word
		if which == "ngids" {
			off = 4 + 4 + (cs.NameLen+3)&^3 + 8
		}
		binary.BigEndian.PutUint32(body[off:], v)
		wellFormed = false
		ctx.Credential.Body = body
	case cs.Body == "trailing":
		ctx.Credential.Body = append(append([]byte{}, full...), 0xde, 0xad, 0xbe, 0xef)
	default:
		ctx.Credential.Body = body
	}
	policy := &PolicyOptions{Squash: cs.Mode}
	var res *AuthResult
	if p := func() (p any) {
		defer func() { p = recover() }()
		res = ValidateAuthentication(ctx, policy)
		return nil
	}(); p != nil || res == nil {
		c.violation(fmt.Sprintf("C10|credential-check-panics|flavor=%d|body=%s", cs.Flavor, strings.SplitN(cs.Body, ":", 2)[0]),
			fmt.Sprintf("ValidateAuthentication panicked on body % x: %v", ctx.Credential.Body, p), cs)
		return
	}
	allowed, uid, gid, aux, auxJudged := c10Expect(cs)
	if cs.Flavor == 1 && !wellFormed {
		allowed = false
	}
	if cs.Body == "trailing" {
		// bytes after a complete credential: accept/deny not judged
		c.count("trailing_bytes_not_judged", 1)
		return
	}
	sigMode := strings.ToLower(cs.Mode)
	if sigMode != "all" && sigMode != "root" && sigMode != "none" && sigMode != "" {
		sigMode = "unrecognised"
	}
	if res.Allowed != allowed {
		c.violation(fmt.Sprintf("C10|allowed-mismatch|flavor=%d|body=%s|want=%v", cs.Flavor, strings.SplitN(cs.Body, ":", 2)[0], allowed),
			fmt.Sprintf("ValidateAuthentication flavor=%d body=%s: Allowed=%v, expected %v (%s)", cs.Flavor, cs.Body, res.Allowed, allowed, res.Reason), cs)
		return
	}
	c.outcome(fmt.Sprintf("allowed=%v", allowed))
	if !allowed {
		return
	}
	if res.UID != uid || res.GID != gid {
		c.violation(fmt.Sprintf("C10|identity-mismatch|mode=%s|uid0=%v|gid0=%v", sigMode, cs.UID == 0, cs.GID == 0),
			fmt.Sprintf("squash %q maps (%d,%d) to (%d,%d), expected (%d,%d)", cs.Mode, cs.UID, cs.GID, res.UID, res.GID, uid, gid), cs)
	}
	if cs.Flavor == 1 && auxJudged && ctx.AuthSys != nil {
		got := ctx.AuthSys.AuxGIDs
		same := len(got) == len(aux)
		for i := 0; same && i < len(aux); i++ {
			same = got[i] == aux[i]
		}
		if !same {
			c.violation(fmt.Sprintf("C10|aux-gids-mismatch|mode=%s", sigMode),
				fmt.Sprintf("squash %q: auxiliary gids %v become %v, expected %v", cs.Mode, cs.Aux, got, aux), cs)
		}
	}
	if shared != nil {
		for i := range shared {
			if shared[i] != cs.Aux[i] {
				c.violation(fmt.Sprintf("C10|caller-aux-slice-mutated|mode=%s", sigMode),
					fmt.Sprintf("squash %q rewrote the caller's auxiliary gid slice in place: %v -> %v", cs.Mode, cs.Aux, shared), cs)
				break
			}
		}
	}
}

// c10E2E observes the effective identity through HandleCall: MKDIR chowns the
// new directory to it, and ACCESS on a group-readable file uses the squashed aux list.
func c10E2E(c *vCtx, cs c10Case) {
	c.beat(func() any { return cs })
	c.res.Evaluations++
	e, err := vNewEnv(ExportOptions{Squash: cs.Mode, AttrCacheTimeout: 1}, func(fs *recfs.FS) {
		f, _ := fs.Create("/g")
		f.Close()
	})
	if err != nil {
		c.violation("C10|e2e-new-rejects-mode", fmt.Sprintf("New rejects squash mode %q: %v", cs.Mode, err), cs)
		return
	}
	defer e.close()
	e.cred = vCredSys(0, 0, nil)
	sq := strings.ToLower(cs.Mode)
	root, err := e.mnt("/")
	vMust(err, "mnt")
	gh, err := e.lookupFH(root, "g")
	vMust(err, "lookup g")
	// /g: owner 4242, group 0, mode 0040: readable exactly by group 0 members
	n, _ := e.h.lookupNode(gh)
	n.mu.Lock()
	n.attrs.Uid, n.attrs.Gid = 4242, 0
	n.mu.Unlock()
	vMust(e.fs.Inner().Chmod("/g", 0o040), "chmod")
	e.nfs.attrCache.Invalidate("/g")
	if cs.Flavor == 0 {
		e.cred = vCredNone
	} else {
		e.cred = wire.Cred{Flavor: cs.Flavor, Body: wire.AuthSys(3, "h", cs.UID, cs.GID, cs.Aux)}
	}
	allowed, uid, gid, aux, _ := c10Expect(cs)
	from := e.fs.LogLen()
	var a wire.Enc
	a.FH(root).Str("nd").Sattr(wire.Sattr{})
	res, rp, err := e.nfsCall(wire.MKDIR, a.B)
	if err != nil {
		c.violation("C10|e2e-call-failed", fmt.Sprintf("MKDIR: %v", err), cs)
		return
	}
	if !allowed {
		if !rp.Denied {
			c.violation(fmt.Sprintf("C10|e2e-unsupported-flavor-not-denied|flavor=%d", cs.Flavor), fmt.Sprintf("flavor %d was not answered MSG_DENIED", cs.Flavor), cs)
		}
		return
	}
	if rp.Denied || res == nil || res.Status != 0 {
		c.violation("C10|e2e-mkdir-failed", fmt.Sprintf("MKDIR as (%d,%d) under squash %q failed: denied=%v res=%+v", cs.UID, cs.GID, cs.Mode, rp.Denied, res), cs)
		return
	}
	found := false
	for _, op := range e.fs.Snapshot()[from:] {
		if op.Name == "Chown" || op.Name == "Lchown" {
			found = true
			if uint32(op.UID) != uid || uint32(op.GID) != gid {
				c.violation(fmt.Sprintf("C10|e2e-effective-identity-mismatch|mode=%s", sq),
					fmt.Sprintf("squash %q, caller (%d,%d): new directory chowned to (%d,%d), expected (%d,%d)", cs.Mode, cs.UID, cs.GID, op.UID, op.GID, uid, gid), cs)
			}
		}
	}
	if !found {
		c.count("e2e_no_chown_observed", 1)
	}
	// ACCESS READ on /g is granted iff the squashed identity is uid 0 or in group 0
	var b wire.Enc
	b.FH(gh).U32(1)
	ares, _, err := e.nfsCall(wire.ACCESS, b.B)
	if err != nil || ares == nil || ares.Status != 0 {
		c.violation("C10|e2e-call-failed", fmt.Sprintf("ACCESS: %v %+v", err, ares), cs)
		return
	}
	in0 := uid == 0 || gid == 0
	if uid != 0 && uid != 4242 {
		for _, g := range aux {
			if g == 0 {
				in0 = true
			}
		}
	}
	if uid == 4242 {
		in0 = false // owner class (mode 0040: owner has no read)
	}
	if (ares.Access&1 != 0) != in0 {
		c.violation(fmt.Sprintf("C10|e2e-access-uses-unsquashed-groups|mode=%s", sq),
			fmt.Sprintf("squash %q, caller (%d,%d,aux %v): ACCESS READ on a group-0 file granted=%v, expected %v", cs.Mode, cs.UID, cs.GID, cs.Aux, ares.Access&1 != 0, in0), cs)
	}
}

func c10AuxLists() [][]uint32 {
	out := [][]uint32{{}}
	vals := []uint32{0, 1, 65534}
	for _, a := range vals {
		out = append(out, []uint32{a})
		for _, b := range vals {
			out = append(out, []uint32{a, b})
			for _, d := range vals {
				out = append(out, []uint32{a, b, d})
			}
		}
	}
	for _, n := range []int{15, 16, 17} {
		l := make([]uint32, n)
		for i := range l {
			l[i] = uint32(i % 3 * 7) // contains 0, 7, 14
		}
		out = append(out, l)
	}
	return out
}

func init() {
	vRegister(&vCheck{
		id: "C10", level: "exploration", flavour: "vtime",
		shards: func(string) int { return 8 },
		rule:   "complete product uid x gid in {0,1,1000,65533,65534,65535,2^31-1,2^31,2^32-1}^2 x 43 auxiliary lists (all lists of length <=3 over {0,1,65534}, lengths 15/16/17) x squash modes {\"\",none,root,all,ROOT,All,nOnE,bogus} x {body parsed from bytes, credential pre-parsed with a slice shared with the caller}; flavors {0,1,2,3,6,2^32-1}; every byte-prefix of a well-formed AUTH_SYS body; machine-name lengths {0..5,255,8192,8193}; the machine-name length word and the gid-count word replaced by {17,256,8193,2^31-1,2^31,2^32-4..2^32-1} (must be denied, never panic); trailing bytes; judged against an independent mapping function. End-to-end slice through HandleCall: the effective identity is read from the chown MKDIR issues and from an ACCESS decision on a group-0 file. Non-trivial = AUTH_SYS case whose expected mapping differs from the identity mapping or is a denial.",
		assumptions: []string{"bytes after a complete AUTH_SYS credential are explored (no panic) but accept/deny is not judged",
			"for an unrecognised mode only uid and gid are judged (the property says nothing about auxiliary gids there)"},
		run: func(c *vCtx) {
			ids := []uint32{0, 1, 1000, 65533, 65534, 65535, 1<<31 - 1, 1 << 31, 1<<32 - 1}
			modes := []string{"", "none", "root", "all", "ROOT", "All", "nOnE", "bogus"}
			auxs := c10AuxLists()
			idx := 0
			for _, m := range modes {
				for _, u := range ids {
					for _, g := range ids {
						idx++
						if !c.mine(idx) {
							continue
						}
						for _, ax := range auxs {
							for _, body := range []string{"wellformed", "preparsed"} {
								if body == "preparsed" && len(ax) > 16 {
									continue
								}
								cs := c10Case{Seam: "validate", Mode: m, Flavor: 1, UID: u, GID: g, Aux: ax, Body: body}
								c10Validate(c, cs)
								_, eu, eg, _, _ := c10Expect(cs)
								if eu != u || eg != g || len(ax) > 16 {
									c.res.Distinct++
								}
								if len(ax) == 3 && u == 0 && body == "preparsed" {
									c.sample(cs)
								}
							}
						}
					}
				}
			}
			if c.shard == 0 {
				for _, fl := range []uint32{0, 2, 3, 6, 1<<32 - 1} {
					for _, m := range modes {
						cs := c10Case{Seam: "validate", Mode: m, Flavor: fl, UID: 0, GID: 0, Aux: []uint32{0}, Body: "wellformed"}
						c10Validate(c, cs)
						c.res.Distinct++
					}
				}
				full := wire.AuthSys(9, "mmm", 0, 0, []uint32{0, 1, 65534})
				for n := 0; n < len(full); n++ {
					cs := c10Case{Seam: "validate", Mode: "root", Flavor: 1, UID: 0, GID: 0, Aux: []uint32{0, 1, 65534}, Body: fmt.Sprintf("prefix:%d", n), NameLen: 3}
					c10Validate(c, cs)
					c.res.Distinct++
				}
				for _, nl := range []int{0, 1, 2, 3, 4, 5, 255, 8192, 8193} {
					cs := c10Case{Seam: "validate", Mode: "root", Flavor: 1, UID: 0, GID: 5, Aux: []uint32{0}, Body: "wellformed", NameLen: nl}
					c10Validate(c, cs)
					c.res.Distinct++
				}
				for _, which := range []string{"name", "ngids"} {
					for _, v := range []uint32{17, 256, 8193, 1<<31 - 1, 1 << 31, 1<<32 - 4, 1<<32 - 3, 1<<32 - 2, 1<<32 - 1} {
						for _, m := range []string{"none", "root", "all"} {
							c10Validate(c, c10Case{Seam: "validate", Mode: m, Flavor: 1, UID: 0, GID: 0, Aux: []uint32{0, 5}, Body: fmt.Sprintf("lenword:%s=%d", which, v), NameLen: 3})
							c.res.Distinct++
						}
					}
				}
				c10Validate(c, c10Case{Seam: "validate", Mode: "root", Flavor: 1, UID: 0, GID: 0, Aux: []uint32{0}, Body: "trailing"})
			}
			// end-to-end slice
			for _, m := range []string{"", "none", "root", "all", "ROOT", "All"} {
				for _, u := range []uint32{0, 1000, 4242, 65534} {
					for _, g := range []uint32{0, 1000, 65534} {
						for _, ax := range [][]uint32{nil, {0}, {7, 0}, {2000}} {
							for _, fl := range []uint32{1, 0, 3} {
								if fl != 1 && (u != 0 || g != 0 || ax != nil) {
									continue
								}
								idx++
								if !c.mine(idx) {
									continue
								}
								cs := c10Case{Seam: "e2e", Mode: m, Flavor: fl, UID: u, GID: g, Aux: ax}
								c10E2E(c, cs)
								c.res.Distinct++
							}
						}
					}
				}
			}
			c.res.Bounds["ids"] = len(ids)
			c.res.Bounds["aux_lists"] = len(auxs)
			c.res.Bounds["modes"] = modes
		},
		replay: func(c *vCtx, raw json.RawMessage) {
			var cs c10Case
			vMust(json.Unmarshal(raw, &cs), "case")
			if cs.Seam == "e2e" {
				c10E2E(c, cs)
			} else {
				c10Validate(c, cs)
			}
		},
	})
}
