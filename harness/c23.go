package absnfs

// C23 — READ and WRITE within the advertised FSINFO limits are served.
// Product of TransferSize values (set at construction and at runtime) x
// request counts up to the advertised maxima; every request travels through
// the real record-marking connection loop over a scripted connection, so a
// dropped connection is observed directly.

import (
	"encoding/json"
	"fmt"
	"sort"
	"time"

	"github.com/absfs/absnfs/internal/verif/recfs"
	"github.com/absfs/absnfs/internal/verif/wire"
)

type c23Case struct {
	T     int    `json:"transfer_size"`
	How   string `json:"how"` // construction tuning export
	Op    string `json:"op"`  // read write
	Count uint32 `json:"count"`
}

type c23World struct {
	e    *vEnv
	root uint64
	fh   uint64
	info *wire.FSInfo
}

const c23FileSize = 3 << 20

func c23Setup(c *vCtx, t int, how string) *c23World {
	opts := ExportOptions{AttrCacheTimeout: 1}
	if how == "construction" {
		opts.TransferSize = t
	}
	fs := recfs.New()
	fs.MaxSize = 8 << 20
	fs.NoLog = true
	f, err := fs.Create("/big")
	vMust(err, "create")
	buf := make([]byte, c23FileSize)
	for i := range buf {
		buf[i] = byte(i % 251)
	}
	f.Write(buf)
	f.Close()
	e, err := vNewEnvOn(fs, opts)
	vMust(err, "env")
	switch how {
	case "tuning":
		e.nfs.UpdateTuningOptions(func(tu *TuningOptions) { tu.TransferSize = t })
	case "export":
		o := e.nfs.GetExportOptions()
		o.TransferSize = t
		vMust(e.nfs.UpdateExportOptions(o), "UpdateExportOptions")
	}
	w := &c23World{e: e}
	w.root, err = e.mnt("/")
	vMust(err, "mnt")
	w.fh, err = e.lookupFH(w.root, "big")
	vMust(err, "lookup")
	return w
}

// one sends a single call over a fresh scripted connection and returns the
// decoded result, or dropped=true when the server closed without replying.
func (w *c23World) one(proc uint32, args []byte) (res *wire.NFSRes, dropped bool, err error) {
	w.e.xid++
	msg := wire.Call(w.e.xid, wire.ProgNFS, 3, proc, w.e.cred, args)
	out, returned, _, p := vServeStream(w.e, wire.Record(msg), w.e.ip, w.e.port, 120*time.Second)
	if p != nil {
		return nil, false, fmt.Errorf("connection handler panicked: %v", p)
	}
	if !returned {
		return nil, false, fmt.Errorf("connection handler did not return")
	}
	recs, rest := vSplitRecords(out)
	if len(recs) == 0 {
		return nil, true, nil
	}
	if len(recs) != 1 || len(rest) != 0 {
		return nil, false, fmt.Errorf("%d reply records, %d stray bytes", len(recs), len(rest))
	}
	rp, err := wire.ParseReply(recs[0])
	if err != nil {
		return nil, false, err
	}
	if rp.Denied || rp.AcceptStat != 0 {
		return nil, false, fmt.Errorf("not accepted: denied=%v accept=%d", rp.Denied, rp.AcceptStat)
	}
	res, err = wire.DecodeNFS(proc, rp.Result)
	return res, false, err
}

func (w *c23World) fsinfo() error {
	var a wire.Enc
	a.FH(w.root)
	res, dropped, err := w.one(wire.FSINFO, a.B)
	if err != nil || dropped || res == nil || res.Status != 0 || res.FSInfo == nil {
		return fmt.Errorf("FSINFO failed: err=%v dropped=%v res=%+v", err, dropped, res)
	}
	w.info = res.FSInfo
	return nil
}

func c23Rel(count uint32, t int, info *wire.FSInfo, max, pref uint32) string {
	eff := t
	if eff <= 0 {
		eff = 65536
	}
	switch {
	case count > uint32(eff) && count == max:
		return "at-max-above-transfer-size"
	case count > uint32(eff):
		return "above-transfer-size"
	case count == max:
		return "at-max"
	}
	return "within-transfer-size"
}

func c23One(c *vCtx, w *c23World, cs c23Case) {
	c.beat(func() any { return cs })
	c.res.Evaluations++
	switch cs.Op {
	case "read":
		var a wire.Enc
		a.FH(w.fh).U64(0).U32(cs.Count)
		res, dropped, err := w.one(wire.READ, a.B)
		rel := c23Rel(cs.Count, cs.T, w.info, w.info.Rtmax, w.info.Rtpref)
		switch {
		case err != nil:
			c.violation("C23|call-failed|op=read", err.Error(), cs)
		case dropped:
			c.violation("C23|read-within-rtmax-drops-connection|count="+rel, fmt.Sprintf("READ count=%d (rtmax=%d, TransferSize=%d via %s): connection closed without a reply", cs.Count, w.info.Rtmax, cs.T, cs.How), cs)
		case res.Status != 0:
			c.violation(fmt.Sprintf("C23|read-within-rtmax-refused|status=%s|count=%s", wire.StatName(res.Status), rel),
				fmt.Sprintf("READ count=%d (rtmax=%d, TransferSize=%d via %s) replied %s", cs.Count, w.info.Rtmax, cs.T, cs.How, wire.StatName(res.Status)), cs)
		case res.Count == 0 || len(res.Data) == 0:
			c.violation("C23|read-before-eof-returns-nothing|count="+rel, fmt.Sprintf("READ count=%d at offset 0 of a %d-byte file returned no data", cs.Count, c23FileSize), cs)
		case res.Count > cs.Count || int(res.Count) != len(res.Data):
			c.violation("C23|read-count-inconsistent", fmt.Sprintf("READ count=%d returned count=%d with %d data bytes", cs.Count, res.Count, len(res.Data)), cs)
		default:
			c.outcome("read:ok:" + rel)
		}
	case "write":
		data := make([]byte, cs.Count)
		for i := range data {
			data[i] = byte(i*7 + 1)
		}
		var a wire.Enc
		a.FH(w.fh).U64(0).U32(cs.Count).U32(2).Opaque(data)
		res, dropped, err := w.one(wire.WRITE, a.B)
		rel := c23Rel(cs.Count, cs.T, w.info, w.info.Wtmax, w.info.Wtpref)
		switch {
		case err != nil:
			c.violation("C23|call-failed|op=write", err.Error(), cs)
		case dropped:
			c.violation("C23|write-within-wtmax-drops-connection|count="+rel, fmt.Sprintf("WRITE count=%d (wtmax=%d, TransferSize=%d via %s): connection closed without a reply", cs.Count, w.info.Wtmax, cs.T, cs.How), cs)
		case res.Status != 0:
			c.violation(fmt.Sprintf("C23|write-within-wtmax-refused|status=%s|count=%s", wire.StatName(res.Status), rel),
				fmt.Sprintf("WRITE count=%d (wtmax=%d, TransferSize=%d via %s) replied %s", cs.Count, w.info.Wtmax, cs.T, cs.How, wire.StatName(res.Status)), cs)
		case res.Count == 0 || res.Count > cs.Count:
			c.violation("C23|write-count-inconsistent", fmt.Sprintf("WRITE count=%d replied count=%d", cs.Count, res.Count), cs)
		default:
			c.outcome("write:ok:" + rel)
		}
	}
}

func c23Counts(max, pref uint32, t int, dense uint32) []uint32 {
	set := map[uint32]bool{}
	add := func(v int64) {
		if v >= 1 && v <= int64(max) {
			set[uint32(v)] = true
		}
	}
	for v := uint32(1); v <= dense; v++ {
		add(int64(v))
	}
	for k := 0; k <= 21; k++ {
		add(1<<k - 1)
		add(1 << k)
		add(1<<k + 1)
	}
	for _, b := range []int64{int64(t), int64(pref), int64(max), 65536} {
		add(b - 1)
		add(b)
		add(b + 1)
	}
	var out []uint32
	for v := range set {
		out = append(out, v)
	}
	sort.Slice(out, func(i, j int) bool { return out[i] < out[j] })
	return out
}

func init() {
	vRegister(&vCheck{
		id: "C23", level: "exploration", flavour: "vtime",
		shards: func(string) int { return 16 },
		rule: "complete product: TransferSize in {0 (default), 1, 512, 4096, 65536, 2^20, 2^21} x set {at construction, by UpdateTuningOptions, by UpdateExportOptions}; FSINFO is read through the connection loop; then READ at offset 0 of a 3 MiB file and WRITE at offset 0 for every count in {1..64 (thorough 1..4096)} plus {2^k-1,2^k,2^k+1}, {T-1,T,T+1}, {pref-1,pref,pref+1}, max-1, max, all <= the advertised rtmax/wtmax; every request is one record on a fresh scripted connection through the real handleConnectionWithRecordMarking. Oracle: a reply arrives (connection not dropped), READ returns >= 1 byte, WRITE replies NFS3_OK with 1 <= count <= requested; preferred sizes must not exceed the maxima.",
		assumptions: []string{"a dropped connection = the connection handler returned having written no reply record", "the backend size guard is raised to 8 MiB for this check"},
		run: func(c *vCtx) {
			idx := 0
			for _, t := range []int{0, 1, 512, 4096, 65536, 1 << 20, 1 << 21} {
				for _, how := range []string{"construction", "tuning", "export"} {
					if how != "construction" && t == 0 && false {
						continue
					}
					idx++
					if !c.mine(idx) {
						continue
					}
					w := c23Setup(c, t, how)
					if err := w.fsinfo(); err != nil {
						c.violation("C23|fsinfo-failed", err.Error(), c23Case{T: t, How: how})
						w.e.close()
						continue
					}
					in := w.info
					for name, pair := range map[string][2]uint32{"rtpref": {in.Rtpref, in.Rtmax}, "wtpref": {in.Wtpref, in.Wtmax}, "dtpref": {in.Dtpref, in.Rtmax}} {
						if pair[0] > pair[1] {
							c.violation("C23|preferred-size-exceeds-maximum|field="+name, fmt.Sprintf("%s=%d > max %d (TransferSize %d via %s)", name, pair[0], pair[1], t, how), c23Case{T: t, How: how})
						}
					}
					dense := uint32(64)
					if c.thorough() {
						dense = 4096
					}
					for _, n := range c23Counts(in.Rtmax, in.Rtpref, t, dense) {
						c23One(c, w, c23Case{T: t, How: how, Op: "read", Count: n})
						c.res.Distinct++
					}
					for _, n := range c23Counts(in.Wtmax, in.Wtpref, t, dense) {
						cs := c23Case{T: t, How: how, Op: "write", Count: n}
						c23One(c, w, cs)
						c.res.Distinct++
						if n == 4096 {
							c.sample(map[string]any{"case": cs, "fsinfo": in})
						}
					}
					w.e.close()
				}
			}
		},
		replay: func(c *vCtx, raw json.RawMessage) {
			var cs c23Case
			vMust(json.Unmarshal(raw, &cs), "case")
			w := c23Setup(c, cs.T, cs.How)
			defer w.e.close()
			if err := w.fsinfo(); err != nil {
				c.violation("C23|fsinfo-failed", err.Error(), cs)
				return
			}
			if cs.Op == "" {
				in := w.info
				for name, pair := range map[string][2]uint32{"rtpref": {in.Rtpref, in.Rtmax}, "wtpref": {in.Wtpref, in.Wtmax}, "dtpref": {in.Dtpref, in.Rtmax}} {
					if pair[0] > pair[1] {
						c.violation("C23|preferred-size-exceeds-maximum|field="+name, "", cs)
					}
				}
				return
			}
			c23One(c, w, cs)
		},
	})
}
