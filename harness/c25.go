package absnfs

// C25 — MaxFileSize is enforced.
// Explicit-state search over WRITE / SETATTR(size) histories around the limit
// for several limits, set at construction or at runtime, against a byte-array
// model; the unlimited configuration runs through the same model so that
// "within the limit behaves as without it" is a model identity.

import (
	"bytes"
	"encoding/json"
	"fmt"

	"github.com/absfs/absnfs/internal/verif/recfs"
	"github.com/absfs/absnfs/internal/verif/wire"
)

type c25Op struct {
	Kind string `json:"kind"` // write setsize
	Off  uint64 `json:"off,omitempty"`
	Len  int    `json:"len,omitempty"`
	Size uint64 `json:"size,omitempty"`
}

type c25Cfg struct {
	Max int64  `json:"max"`
	How string `json:"how"` // construction policy export none
}

type c25State struct {
	e     *vEnv
	root  uint64
	fh    uint64
	cfg   c25Cfg
	model []byte
	c     *vCtx
}

type c25Case struct {
	Cfg  c25Cfg  `json:"cfg"`
	Hist []c25Op `json:"hist"`
}

func c25New(cfg c25Cfg, c *vCtx) *c25State {
	opts := ExportOptions{AttrCacheTimeout: 1, TransferSize: 65536}
	if cfg.How == "construction" {
		opts.MaxFileSize = cfg.Max
	}
	e, err := vNewEnv(opts, func(fs *recfs.FS) {
		f, _ := fs.Create("/f")
		f.Write([]byte("ab"))
		f.Close()
	})
	vMust(err, "env")
	switch cfg.How {
	case "policy":
		p := *e.nfs.policy.Load()
		p.MaxFileSize = cfg.Max
		vMust(e.nfs.UpdatePolicyOptions(p), "policy")
	case "export":
		o := e.nfs.GetExportOptions()
		o.MaxFileSize = cfg.Max
		vMust(e.nfs.UpdateExportOptions(o), "export")
	}
	root, err := e.mnt("/")
	vMust(err, "mnt")
	fh, err := e.lookupFH(root, "f")
	vMust(err, "lookup")
	return &c25State{e: e, root: root, fh: fh, cfg: cfg, model: []byte("ab"), c: c}
}

func (s *c25State) backend() []byte {
	b, _ := s.e.fs.Inner().ReadFile("/f")
	return b
}

func (s *c25State) apply(op c25Op, check bool, hist []c25Op) {
	cs := func() c25Case { return c25Case{Cfg: s.cfg, Hist: append(append([]c25Op(nil), hist...), op)} }
	limit := s.cfg.Max
	if s.cfg.How == "none" {
		limit = 0
	}
	const backendMax = 1 << 20
	var res *wire.NFSRes
	var err error
	var want []byte
	over, latitude := false, false
	switch op.Kind {
	case "write":
		data := bytes.Repeat([]byte{byte('A' + op.Len%20)}, op.Len)
		var a wire.Enc
		a.FH(s.fh).U64(op.Off).U32(uint32(op.Len)).U32(2).Opaque(data)
		res, _, err = s.e.nfsCall(wire.WRITE, a.B)
		end := int64(op.Off) + int64(op.Len)
		over = limit > 0 && op.Len > 0 && end > limit && end > int64(len(s.model))
		latitude = limit > 0 && op.Len > 0 && end > limit && !over // rewrite inside an already oversize file
		want = append([]byte(nil), s.model...)
		if !over && op.Len > 0 {
			for int64(len(want)) < end {
				want = append(want, 0)
			}
			copy(want[op.Off:], data)
		}
	case "setsize", "createsize":
		var a wire.Enc
		if op.Kind == "createsize" {
			// UNCHECKED CREATE of the existing name with size set: the file is resized like SETATTR(size)
			a.FH(s.root).Str("f").U32(0).Sattr(wire.Sattr{Size: wire.U64p(op.Size)})
			res, _, err = s.e.nfsCall(wire.CREATE, a.B)
		} else {
			a.FH(s.fh).Sattr(wire.Sattr{Size: wire.U64p(op.Size)}).U32(0)
			res, _, err = s.e.nfsCall(wire.SETATTR, a.B)
		}
		over = limit > 0 && op.Size > uint64(limit) && op.Size > uint64(len(s.model))
		latitude = limit > 0 && op.Size > uint64(limit) && !over // shrinking an already oversize file
		want = append([]byte(nil), s.model...)
		if !over && op.Size <= backendMax {
			for uint64(len(want)) < op.Size {
				want = append(want, 0)
			}
			want = want[:op.Size]
		}
	}
	got := s.backend()
	if check {
		s.c.res.Evaluations++
		if err != nil || res == nil {
			s.c.violation("C25|call-failed|op="+op.Kind, fmt.Sprintf("%v", err), cs())
			return
		}
		tooBigForBackend := op.Kind != "write" && op.Size > backendMax
		switch {
		case latitude:
			s.c.count("not_judged_file_already_above_limit", 1)
		case limit > 0 && int64(len(got)) > limit && len(got) > len(s.model):
			s.c.violation(fmt.Sprintf("C25|file-grows-beyond-limit|op=%s|how=%s", op.Kind, s.cfg.How),
				fmt.Sprintf("MaxFileSize=%d (%s): after %+v the backend file has %d bytes (reply %s)", limit, s.cfg.How, op, len(got), wire.StatName(res.Status)), cs())
		case over && res.Status != 27:
			s.c.violation(fmt.Sprintf("C25|over-limit-request-not-FBIG|op=%s|status=%s", op.Kind, wire.StatName(res.Status)),
				fmt.Sprintf("MaxFileSize=%d: %+v replied %s, expected NFS3ERR_FBIG", limit, op, wire.StatName(res.Status)), cs())
		case over && !bytes.Equal(got, s.model):
			s.c.violation("C25|refused-request-changes-file|op="+op.Kind, fmt.Sprintf("MaxFileSize=%d: %+v was refused but the file changed from %q to %q", limit, op, s.model, got), cs())
		case !over && !tooBigForBackend && res.Status != 0:
			s.c.violation(fmt.Sprintf("C25|within-limit-request-fails|op=%s|status=%s", op.Kind, wire.StatName(res.Status)),
				fmt.Sprintf("MaxFileSize=%d: %+v is within the limit but replied %s", limit, op, wire.StatName(res.Status)), cs())
		case !over && !bytes.Equal(got, want):
			s.c.violation("C25|within-limit-request-differs-from-unlimited|op="+op.Kind,
				fmt.Sprintf("MaxFileSize=%d: after %+v the file is %q, without a limit it would be %q", limit, op, got, want), cs())
		}
		s.c.outcome(fmt.Sprintf("%s:over=%v:%s", op.Kind, over, wire.StatName(res.Status)))
	}
	s.model = got // continue from the observed file
}

func c25Ops(m int64) []c25Op {
	var ops []c25Op
	offs := map[uint64]bool{}
	for o := int64(0); o <= m+2 && o <= 8; o++ {
		offs[uint64(o)] = true
	}
	for _, o := range []int64{m - 1, m, m + 1, m + 2} {
		if o >= 0 {
			offs[uint64(o)] = true
		}
	}
	lens := map[int]bool{0: true, 1: true, 2: true, 3: true, int(m): true, int(m + 1): true}
	for o := range offs {
		for l := range lens {
			if l <= 8192 {
				ops = append(ops, c25Op{Kind: "write", Off: o, Len: l})
			}
		}
		ops = append(ops, c25Op{Kind: "setsize", Size: o})
		if o >= uint64(m)-1 || o == 0 {
			ops = append(ops, c25Op{Kind: "createsize", Size: o})
		}
	}
	ops = append(ops, c25Op{Kind: "setsize", Size: 1 << 40})
	// deterministic order
	for i := 1; i < len(ops); i++ {
		for j := i; j > 0 && c25Less(ops[j], ops[j-1]); j-- {
			ops[j], ops[j-1] = ops[j-1], ops[j]
		}
	}
	return ops
}

func c25Less(a, b c25Op) bool {
	if a.Kind != b.Kind {
		return a.Kind < b.Kind
	}
	if a.Off != b.Off {
		return a.Off < b.Off
	}
	if a.Len != b.Len {
		return a.Len < b.Len
	}
	return a.Size < b.Size
}

func init() {
	vRegister(&vCheck{
		id: "C25", level: "model_checking", flavour: "vtime",
		shards: func(string) int { return 13 },
		rule: "breadth-first search over histories of WRITE(off,len), SETATTR(size) and UNCHECKED CREATE of the existing name with size set, with off and size in [0,M+2] (dense up to 8) and {M-1,M,M+1,M+2}, len in {0,1,2,3,M,M+1}, size 2^40, on one file, for MaxFileSize M in {1,4,5,4096} established at construction / by UpdatePolicyOptions / by UpdateExportOptions, plus the unlimited configuration; depth 2 (thorough 3) with deduplication on the file's bytes; after every transition the backend file is compared with a byte-array model: size never above M, an over-limit request replies NFS3ERR_FBIG and changes nothing, every other request behaves exactly as in the unlimited model.",
		assumptions: []string{"the recording backend refuses sizes above 1 MiB (its own guard); such requests are only required to leave the file unchanged"},
		run: func(c *vCtx) {
			var cfgs []c25Cfg
			for _, m := range []int64{1, 4, 5, 4096} {
				for _, how := range []string{"construction", "policy", "export"} {
					cfgs = append(cfgs, c25Cfg{m, how})
				}
			}
			cfgs = append(cfgs, c25Cfg{4, "none"})
			depth := 2
			if c.thorough() {
				depth = 3
			}
			for i, cfg := range cfgs {
				if !c.mine(i) {
					continue
				}
				ops := c25Ops(cfg.Max)
				eng := &vHist[*c25State, c25Op]{
					New:     func() *c25State { return c25New(cfg, c) },
					Apply:   func(s *c25State, op c25Op, check bool, hist []c25Op) { s.apply(op, check, hist) },
					Enabled: func(s *c25State) []c25Op { return ops },
					Key:     func(s *c25State) string { return string(s.backend()) },
					Close:   func(s *c25State) { s.e.close() },
					All:     true,
				}
				st, tr, _ := eng.run(c, depth)
				c.res.States += st
				c.res.Transitions += tr
				c.res.Traces += tr
				c.sample(map[string]any{"cfg": cfg, "alphabet": len(ops), "depth": depth, "states": st, "transitions": tr})
			}
		},
		replay: func(c *vCtx, raw json.RawMessage) {
			var cs c25Case
			vMust(json.Unmarshal(raw, &cs), "case")
			s := c25New(cs.Cfg, c)
			defer s.e.close()
			for i, op := range cs.Hist {
				s.apply(op, i == len(cs.Hist)-1, cs.Hist[:i])
			}
		},
	})
}
