package absnfs

// C11 — only an effective root identity can assign ownership.
// Complete product of credentials x squash modes x sattr3 uid/gid settings in
// SETATTR, CREATE (3 modes), MKDIR and SYMLINK; the oracle reads the
// chown/lchown calls in the recording backend's log and the attributes the
// server reports for the new object.

import (
	"encoding/json"
	"fmt"

	"github.com/absfs/absnfs/internal/verif/recfs"
	"github.com/absfs/absnfs/internal/verif/wire"
)

type c11Case struct {
	Squash string  `json:"squash"`
	None   bool    `json:"auth_none,omitempty"`
	UID    uint32  `json:"uid"`
	GID    uint32  `json:"gid"`
	Proc   string  `json:"proc"` // SETATTR CREATE-unchecked CREATE-guarded CREATE-exclusive MKDIR SYMLINK
	SUID   *uint32 `json:"sattr_uid"`
	SGID   *uint32 `json:"sattr_gid"`
	Owner  uint32  `json:"owner"` // SETATTR target's current owner (uid=gid=Owner)
}

func c11Effective(cs c11Case) (uint32, uint32) {
	if cs.None {
		return 65534, 65534
	}
	u, g := cs.UID, cs.GID
	switch cs.Squash {
	case "all":
		return 65534, 65534
	case "root":
		if u == 0 {
			return 65534, 65534
		}
		if g == 0 {
			g = 65534
		}
	}
	return u, g
}

func c11One(c *vCtx, cs c11Case) {
	c.beat(func() any { return cs })
	c.res.Evaluations++
	e, err := vNewEnv(ExportOptions{Squash: cs.Squash, AttrCacheTimeout: 1}, func(fs *recfs.FS) {
		f, _ := fs.Create("/t")
		f.Write([]byte("x"))
		f.Close()
	})
	vMust(err, "env")
	defer e.close()
	// handles obtained in-package (the squash mode may leave no root caller)
	alloc := func(p string) uint64 {
		n, err := e.nfs.Lookup(p)
		vMust(err, "lookup")
		return e.nfs.fileMap.Allocate(n)
	}
	root, th := alloc("/"), alloc("/t")
	if n, ok := e.h.lookupNode(th); ok {
		n.mu.Lock()
		n.attrs.Uid, n.attrs.Gid = cs.Owner, cs.Owner
		n.mu.Unlock()
		e.nfs.attrCache.Invalidate("/t")
	}
	if cs.None {
		e.cred = vCredNone
	} else {
		e.cred = vCredSys(cs.UID, cs.GID, nil)
	}
	eu, eg := c11Effective(cs)
	sat := wire.Sattr{UID: cs.SUID, GID: cs.SGID}
	var a wire.Enc
	var proc uint32
	newPath := ""
	switch cs.Proc {
	case "SETATTR":
		proc = wire.SETATTR
		a.FH(th).Sattr(sat).U32(0)
	case "CREATE-unchecked", "CREATE-guarded":
		proc = wire.CREATE
		how := uint32(0)
		if cs.Proc == "CREATE-guarded" {
			how = 1
		}
		a.FH(root).Str("n").U32(how).Sattr(sat)
		newPath = "/n"
	case "CREATE-exclusive":
		proc = wire.CREATE
		a.FH(root).Str("n").U32(2).Raw([]byte("VERIFIER"))
		newPath = "/n"
	case "MKDIR":
		proc = wire.MKDIR
		a.FH(root).Str("n").Sattr(sat)
		newPath = "/n"
	case "SYMLINK":
		proc = wire.SYMLINK
		a.FH(root).Str("n").Sattr(sat).Str("t")
		newPath = "/n"
	}
	from := e.fs.LogLen()
	res, rp, err := e.nfsCall(proc, a.B)
	if err != nil || res == nil {
		c.violation("C11|harness-call-failed|proc="+cs.Proc, fmt.Sprintf("%v denied=%v", err, rp != nil && rp.Denied), cs)
		return
	}
	c.outcome(cs.Proc + ":" + wire.StatName(res.Status))
	var chowns []recfs.Op
	for _, op := range e.fs.Snapshot()[from:] {
		if (op.Name == "Chown" || op.Name == "Lchown") && op.Err == "" {
			chowns = append(chowns, op)
		}
	}
	// clause 1: a non-root effective identity never records a foreign owner
	if eu != 0 {
		for _, op := range chowns {
			if uint32(op.UID) != eu || uint32(op.GID) != eg {
				c.violation(fmt.Sprintf("C11|non-root-assigns-foreign-owner|proc=%s", cs.Proc),
					fmt.Sprintf("effective (%d,%d) via %s (sattr uid=%v gid=%v): backend %s(%s, %d, %d)", eu, eg, cs.Proc, deref(cs.SUID), deref(cs.SGID), op.Name, op.Path, op.UID, op.GID), cs)
			}
		}
		if cs.Proc == "SETATTR" && len(chowns) > 0 && (uint32(chowns[0].UID) != cs.Owner || uint32(chowns[0].GID) != cs.Owner) {
			// SETATTR by a non-root caller must not change ownership at all
			c.violation("C11|setattr-by-non-root-changes-owner",
				fmt.Sprintf("effective (%d,%d): SETATTR(uid=%v,gid=%v) on an object owned by %d issued %s(%d,%d)", eu, eg, deref(cs.SUID), deref(cs.SGID), cs.Owner, chowns[0].Name, chowns[0].UID, chowns[0].GID), cs)
		}
		if cs.Proc == "SETATTR" && res.Status == 0 && res.Wcc != nil && res.Wcc.After != nil && (res.Wcc.After.UID != cs.Owner || res.Wcc.After.GID != cs.Owner) {
			c.violation("C11|setattr-by-non-root-reports-new-owner",
				fmt.Sprintf("effective (%d,%d): SETATTR(uid=%v,gid=%v) now reports owner (%d,%d), was %d", eu, eg, deref(cs.SUID), deref(cs.SGID), res.Wcc.After.UID, res.Wcc.After.GID, cs.Owner), cs)
		}
	}
	// clause 2: a new object gets the caller's effective identity (root may override through sattr3)
	if newPath != "" && res.Status == 0 {
		wantU, wantG := eu, eg
		if eu == 0 && cs.Proc != "CREATE-exclusive" {
			if cs.SUID != nil {
				wantU = *cs.SUID
			}
			if cs.SGID != nil {
				wantG = *cs.SGID
			}
		}
		recorded := false
		for _, op := range chowns {
			if op.Path == newPath && uint32(op.UID) == wantU && uint32(op.GID) == wantG {
				recorded = true
			}
		}
		if !recorded && !(wantU == 0 && wantG == 0) {
			// (0,0) is the backend default: no chown needed to record it
			c.violation(fmt.Sprintf("C11|new-object-owner-not-recorded|proc=%s", cs.Proc),
				fmt.Sprintf("%s by effective (%d,%d): no backend chown/lchown(%s, %d, %d) was issued (saw %d chown calls)", cs.Proc, eu, eg, newPath, wantU, wantG, len(chowns)), cs)
		}
		if res.Attr != nil && (res.Attr.UID != wantU || res.Attr.GID != wantG) {
			c.violation(fmt.Sprintf("C11|new-object-attrs-report-other-owner|proc=%s", cs.Proc),
				fmt.Sprintf("%s by effective (%d,%d): returned attributes say owner (%d,%d), expected (%d,%d)", cs.Proc, eu, eg, res.Attr.UID, res.Attr.GID, wantU, wantG), cs)
		}
	}
}

func deref(p *uint32) any {
	if p == nil {
		return "unset"
	}
	return *p
}

func init() {
	vRegister(&vCheck{
		id: "C11", level: "exploration", flavour: "vtime",
		shards: func(string) int { return 8 },
		rule:   "complete product: credentials (uid,gid) in {0,1000,65534}^2 plus AUTH_NONE x squash {none,root,all} x sattr3 uid in {unset,0,1000,4242} x sattr3 gid in {unset,0,1000,4242} x procedure {SETATTR, CREATE unchecked/guarded/exclusive, MKDIR, SYMLINK} x (SETATTR only) target owned by {0,1000}; each on a fresh instance. Oracle on the backend's chown/lchown log and the returned attributes. Non-trivial = cases whose effective uid is not 0 or whose sattr3 sets an id.",
		assumptions: []string{"the backend's default owner is (0,0), so recording (0,0) needs no chown call",
			"for an effective root caller an explicit sattr3 uid/gid is the owner to record (root may assign ownership)"},
		run: func(c *vCtx) {
			ids := []uint32{0, 1000, 65534}
			sopts := []*uint32{nil, wire.U32p(0), wire.U32p(1000), wire.U32p(4242)}
			idx := 0
			for _, sq := range []string{"none", "root", "all"} {
				for ci := 0; ci < 10; ci++ {
					cs0 := c11Case{Squash: sq}
					if ci == 9 {
						cs0.None = true
					} else {
						cs0.UID, cs0.GID = ids[ci/3], ids[ci%3]
					}
					for _, proc := range []string{"SETATTR", "CREATE-unchecked", "CREATE-guarded", "CREATE-exclusive", "MKDIR", "SYMLINK"} {
						for _, su := range sopts {
							for _, sg := range sopts {
								owners := []uint32{0}
								if proc == "SETATTR" {
									owners = []uint32{0, 1000}
								}
								for _, ow := range owners {
									idx++
									if !c.mine(idx) {
										continue
									}
									cs := cs0
									cs.Proc, cs.SUID, cs.SGID, cs.Owner = proc, su, sg, ow
									c11One(c, cs)
									eu, _ := c11Effective(cs)
									if eu != 0 || su != nil || sg != nil {
										c.res.Distinct++
									}
									if idx%211 == 0 {
										c.sample(cs)
									}
								}
							}
						}
					}
				}
			}
			c.res.Bounds["cases_total"] = idx
		},
		replay: func(c *vCtx, raw json.RawMessage) {
			var cs c11Case
			vMust(json.Unmarshal(raw, &cs), "case")
			c11One(c, cs)
		},
	})
}
