package absnfs

// Stubs for the flavours that do not carry the scheduler scenarios.

func c16Scenarios(thorough bool) []vScn { return nil }
func c29Scenarios(thorough bool) []vScn { return nil }
func c17Scenarios(thorough bool) []vScn { return nil }
func c21ConcScenarios(thorough bool) []vScn { return nil }
func shimConformance(c *vCtx) {}
func c18ConcScenarios(thorough bool) []vScn { return nil }
