package absnfs

// C29.race — free-running companion of the scheduler checks, built with -race
// (plain flavour: real goroutines, real sync, real time). It is NOT a deciding
// step of the model-checking claims: it samples schedules. Its only job is the
// clause the cooperative scheduler cannot see: unsynchronised accesses to plain
// memory. The driver collects the race detector's reports (GORACE log_path) and
// turns each distinct pair of racing functions into a violation signature.

import (
	"encoding/json"
	"fmt"
	"io"
	"log"
	"net"
	"os"
	"runtime"
	"sync"
	"time"

	"github.com/absfs/absnfs/internal/verif/recfs"
	"github.com/absfs/absnfs/internal/verif/wire"
)

var (
	racePanicMu sync.Mutex
	racePanics  []string
)

type raceScn struct {
	name string
	run  func(iter int)
}

// raceGo starts the bodies together and waits for all of them.
func raceGo(bodies ...func()) {
	start := make(chan struct{})
	var wg sync.WaitGroup
	for _, b := range bodies {
		b := b
		wg.Add(1)
		go func() {
			defer wg.Done()
			defer func() {
				if r := recover(); r != nil {
					racePanicMu.Lock()
					racePanics = append(racePanics, fmt.Sprint(r))
					racePanicMu.Unlock()
				}
			}()
			<-start
			b()
		}()
	}
	close(start)
	wg.Wait()
}

func raceEnv(opts ExportOptions) (*vEnv, map[string]uint64) {
	e, err := vNewEnv(opts, func(fs *recfs.FS) {
		fs.Mkdir("/d", 0755)
		f, _ := fs.Create("/f")
		f.Write([]byte("0123"))
		f.Close()
		g, _ := fs.Create("/d/x")
		g.Write([]byte("xx"))
		g.Close()
	})
	vMust(err, "env")
	h := map[string]uint64{}
	h["/"], err = e.mnt("/")
	vMust(err, "mnt")
	for _, p := range [][2]string{{"/", "f"}, {"/", "d"}} {
		fh, err := e.lookupFH(h[p[0]], p[1])
		vMust(err, "lookup")
		h["/"+p[1]] = fh
	}
	return e, h
}

// raceCall sends one request with a private xid (the shared vEnv counter is not used concurrently).
func raceCall(e *vEnv, xid, proc uint32, args []byte) {
	e.rawCallNoTick(wire.Call(xid, wire.ProgNFS, 3, proc, e.cred, args))
}

func raceScenarios() []raceScn {
	cached := ExportOptions{AttrCacheTimeout: time.Hour, EnableDirCache: true, DirCacheTimeout: time.Hour, CacheNegativeLookups: true, NegativeCacheTimeout: time.Hour, MaxWorkers: 2}
	fh := func(h uint64) []byte { var a wire.Enc; a.FH(h); return a.B }
	dirop := func(h uint64, n string) []byte { var a wire.Enc; a.FH(h).Str(n); return a.B }
	read := func(h uint64) []byte { var a wire.Enc; a.FH(h).U64(0).U32(16); return a.B }
	create := func(h uint64, n string) []byte {
		var a wire.Enc
		a.FH(h).Str(n).U32(0).Sattr(wire.Sattr{Mode: wire.U32p(0644)})
		return a.B
	}
	readdirplus := func(h uint64) []byte {
		var a wire.Enc
		a.FH(h).U64(0).Raw(make([]byte, 8)).U32(4096).U32(8192)
		return a.B
	}
	setsize := func(h uint64, n uint64) []byte { var a wire.Enc; a.FH(h).Sattr(wire.Sattr{Size: wire.U64p(n)}).U32(0); return a.B }
	rename := func(h uint64, a1 string, h2 uint64, a2 string) []byte {
		var a wire.Enc
		a.FH(h).Str(a1).FH(h2).Str(a2)
		return a.B
	}
	return []raceScn{
		{"data-path", func(it int) {
			e, h := raceEnv(cached)
			defer e.close()
			raceGo(
				func() { raceCall(e, 1, wire.WRITE, writeArgsPlain(h["/f"], 0, "AB")); raceCall(e, 2, wire.GETATTR, fh(h["/f"])) },
				func() { raceCall(e, 3, wire.WRITE, writeArgsPlain(h["/f"], 4, "EF")); raceCall(e, 4, wire.READ, read(h["/f"])) },
				func() { raceCall(e, 5, wire.READ, read(h["/f"])); raceCall(e, 6, wire.SETATTR, setsize(h["/f"], 2)) },
				func() { raceCall(e, 7, wire.LOOKUP, dirop(h["/"], "f")); raceCall(e, 8, wire.ACCESS, append(fh(h["/f"]), 0, 0, 0, 0x3f)) },
			)
		}},
		{"namespace", func(it int) {
			e, h := raceEnv(cached)
			defer e.close()
			raceGo(
				func() { raceCall(e, 1, wire.CREATE, create(h["/d"], "a")); raceCall(e, 2, wire.REMOVE, dirop(h["/d"], "x")) },
				func() { raceCall(e, 3, wire.READDIRPLUS, readdirplus(h["/d"])); raceCall(e, 4, wire.LOOKUP, dirop(h["/d"], "a")) },
				func() { raceCall(e, 5, wire.RENAME, rename(h["/"], "f", h["/d"], "g")); raceCall(e, 6, wire.LOOKUP, dirop(h["/d"], "x")) },
				func() { raceCall(e, 7, wire.MKDIR, create(h["/d"], "m")[:len(create(h["/d"], "m"))]); raceCall(e, 8, wire.READDIR, readdirplus(h["/d"])[:len(readdirplus(h["/d"]))-4]) },
			)
		}},
		{"requests-vs-reconfiguration", func(it int) {
			e, h := raceEnv(cached)
			defer e.close()
			raceGo(
				func() { raceCall(e, 1, wire.WRITE, writeArgsPlain(h["/f"], 0, "AB")); raceCall(e, 2, wire.LOOKUP, dirop(h["/"], "f")) },
				func() { raceCall(e, 3, wire.READDIRPLUS, readdirplus(h["/"])); raceCall(e, 4, wire.GETATTR, fh(h["/f"])) },
				func() {
					p := *e.nfs.policy.Load()
					p.ReadOnly = it%2 == 0
					p.EnableRateLimiting = it%3 == 0
					e.nfs.UpdatePolicyOptions(p)
				},
				func() {
					e.nfs.UpdateTuningOptions(func(t *TuningOptions) {
						t.AttrCacheSize, t.DirCacheMaxEntries, t.MaxWorkers = 3+it%3, 2+it%2, 1+it%3
						t.AttrCacheTimeout = time.Duration(1+it%2) * time.Hour
						t.CacheNegativeLookups = it%2 == 1
					})
				},
				func() { o := e.nfs.GetExportOptions(); o.TransferSize = 4096 << (it % 3); e.nfs.UpdateExportOptions(o) },
				func() { e.nfs.GetMetrics(); e.nfs.IsHealthy() },
			)
		}},
		{"connections-vs-stop", func(it int) {
			e, _ := raceEnv(ExportOptions{MaxConnections: 2, IdleTimeout: time.Hour, MaxWorkers: 2})
			e.srv.options.UseRecordMarking = true
			call := wire.Record(wire.Call(9, wire.ProgNFS, 3, 0, vCredSys(0, 0, nil), nil))
			serve := func(ip string) func() {
				return func() {
					conn := vNewFakeConn(call, ip, 900)
					if e.srv.registerConnection(conn) {
						e.srv.handleConnectionWithRecordMarking(conn, e.h)
						e.srv.unregisterConnection(conn)
					}
				}
			}
			raceGo(serve("10.0.0.1"), serve("10.0.0.2"), serve("10.0.0.3"),
				func() { e.srv.cleanupIdleConnections() },
				func() {
					if it%2 == 0 {
						e.srv.Stop()
					}
				})
			e.close()
		}},
		{"worker-pool", func(it int) {
			nfs := &AbsfsNFS{logger: log.New(io.Discard, "", 0)}
			pool := NewWorkerPool(1+it%2, nfs)
			nfs.workerPool = pool
			pool.Start()
			task := func() interface{} { runtime.Gosched(); return 1 }
			raceGo(
				func() { pool.SubmitWait(task) },
				func() { nfs.ExecuteWithWorker(task) },
				func() { pool.Resize(1 + (it+1)%3) },
				func() { pool.Stats() },
				func() {
					if it%2 == 0 {
						pool.Stop()
					}
				})
			pool.Stop()
		}},
		{"rate-limiter", func(it int) {
			cfg := DefaultRateLimiterConfig()
			cfg.CleanupInterval = time.Nanosecond // the periodic clean-up runs inside the calls
			cfg.PerIPBurstSize, cfg.PerConnectionBurstSize = 3, 2
			rl := NewRateLimiter(cfg)
			raceGo(
				func() { rl.AllowRequest("10.0.0.1", "c1"); rl.AllowOperation("10.0.0.1", OpTypeMount); rl.CleanupConnection("c1") },
				func() { rl.AllowRequest("10.0.0.1", "c2"); rl.AllowOperation("10.0.0.1", OpTypeReaddir); rl.GetStats() },
				func() { rl.AllowRequest("10.0.0.2", "c1"); rl.AllocateFileHandle("10.0.0.1"); rl.ReleaseFileHandle("10.0.0.1") },
				func() { rl.AllowOperation("10.0.0.2", OpTypeReadLarge); rl.AllocateFileHandle("10.0.0.2"); rl.GetStats() },
			)
		}},
		{"portmapper", func(it int) {
			pm := NewPortmapper()
			loop := &net.TCPAddr{IP: net.ParseIP("127.0.0.1"), Port: 700}
			call := func(vers, proc uint32, args []byte) {
				pm.handleCall(wire.Call(uint32(it), 100000, vers, proc, vCredNone, args), loop)
			}
			var m wire.Enc
			m.U32(100003).U32(3).U32(6).U32(2049)
			raceGo(
				func() { pm.RegisterService(100003, 3, 6, 2049); pm.GetPort(100003, 3, 6); pm.UnregisterService(100003, 3, 6) },
				func() { call(2, 1, m.B); call(2, 3, m.B); call(2, 4, nil) },
				func() { call(2, 2, m.B); pm.GetMappings(); call(3, 4, nil) },
				func() { pm.RegisterService(100005, 3, 6, 635); call(4, 4, nil); pm.GetPort(100005, 3, 6) },
			)
		}},
		{"caches-and-handles", func(it int) {
			ac := NewAttrCache(time.Hour, 2)
			ac.ConfigureNegativeCaching(true, time.Hour)
			dc := NewDirCache(time.Hour, 2, 8)
			fm := &FileHandleMap{handles: map[uint64]absfsFile{}, pathHandles: map[string]uint64{}, nextHandle: 1, freeHandles: NewUint64MinHeap(), maxHandles: 3}
			node := func(p string) *NFSNode { return &NFSNode{path: p, attrs: &NFSAttrs{}} }
			raceGo(
				func() { ac.Put("/a", ccAttrsPlain(1)); ac.Get("/a"); ac.PutNegative("/d/x"); ac.Stats() },
				func() { ac.Invalidate("/a"); ac.Put("/b", ccAttrsPlain(2)); ac.Resize(1 + it%3); ac.Size() },
				func() { ac.ConfigureNegativeCaching(it%2 == 0, time.Hour); ac.InvalidateNegativeInDir("/d"); ac.Clear() },
				func() { dc.Put("/a", nil); dc.Get("/a"); dc.Invalidate("/a"); dc.Resize(1 + it%2); dc.Stats() },
				func() { h := fm.Allocate(node("/p")); fm.Get(h); fm.Allocate(node("/q")); fm.Count() },
				func() { h := fm.Allocate(node("/r")); fm.Release(h); fm.Allocate(node("/p")); fm.ReleaseAll() },
			)
		}},
	}
}

func writeArgsPlain(h uint64, off uint64, data string) []byte {
	var a wire.Enc
	a.FH(h).U64(off).U32(uint32(len(data))).U32(2).Opaque([]byte(data))
	return a.B
}

func ccAttrsPlain(size int64) *NFSAttrs { return &NFSAttrs{Mode: 0644, Size: size, FileId: uint64(size)} }

func init() {
	vRegister(&vCheck{
		id: "C29.race", level: "exploration", flavour: "plain", raceBuild: true,
		shards: func(string) int { return 4 },
		rule: "free-running companion built with -race (real goroutines, real sync, barrier start), NOT exhaustive and not a deciding step of the model-checking claims: eight scenario bodies (rate limiter calls with the clean-up running inside them; portmapper registry calls; data path on one file; namespace operations in one directory; requests vs UpdatePolicyOptions/UpdateTuningOptions/UpdateExportOptions/metrics; connection handlers vs idle cleanup vs Stop; worker pool Submit/Execute/Resize/Stats/Stop; caches and handle table used directly) are each repeated 400 times (thorough 8000) in total; every report of Go's race detector (which has no false positives) becomes a violation whose signature is the pair of racing functions.",
		assumptions: []string{"sampling: the absence of a report says nothing about schedules that did not occur"},
		run: func(c *vCtx) {
			n := 400
			if c.thorough() {
				n = 8000
			}
			os.Stderr.WriteString("")
			for si, scn := range raceScenarios() {
				for it := 0; it < n; it++ {
					if !c.mine(si*n + it) {
						continue
					}
					c.beat(func() any { return map[string]any{"scenario": scn.name, "iteration": it} })
					scn.run(it)
					c.res.Evaluations++
					c.outcome(scn.name)
				}
			}
			seen := map[string]bool{}
			for _, p := range racePanics {
				if !seen[p] {
					seen[p] = true
					c.violation("C29|panic-in-free-running-scenario|"+p, "a scenario body panicked: "+p, map[string]any{"scenario": ""})
				}
			}
			c.res.Exhaustive = false
			c.note("C29.race samples schedules with the race detector; it is an adjunct to the exhaustive parts, not exhaustive itself")
		},
		replay: func(c *vCtx, raw json.RawMessage) {
			var cs struct {
				Scenario string `json:"scenario"`
			}
			json.Unmarshal(raw, &cs)
			for _, scn := range raceScenarios() {
				if scn.name == cs.Scenario || cs.Scenario == "" {
					for it := 0; it < 300; it++ {
						scn.run(it)
					}
				}
			}
			c.note("race replay re-ran the scenario bodies; reports (if any) are collected by the driver")
		},
	})
	_ = fmt.Sprintf
}
